"""Self-tests of the machinery (DESIGN section 8): independence lint, model validation, determinism of the simulator
and of the verdicts, sensitivity against a mutant set.

  ./check selftest quick          lint + model validation + determinism (200 scenarios/property family)
  ./check selftest determinism [N]
  ./check selftest sensitivity [name-filter]     every patch under selftest/mutants and seeded/*/patch.diff
"""
import glob
import hashlib
import json
import os
import re
import shutil
import subprocess
import sys
import time

from . import harness

ROOT = harness.ROOT
PY = harness.PY
MODEL_FILES = ["rng.py", "netbuild.py", "container.py", "observer.py", "tlsref.py", "tlsconn.py", "quicref.py", "quicpeer.py",
               "quicconn.py", "world.py", "gen.py"]
DET_PROPS = ["C01", "C02", "C03", "C04", "C05", "C06", "C07", "C11", "C12", "C16", "C18"]


def lint():
    bad = []
    for f in MODEL_FILES:
        src = open(os.path.join(ROOT, "simtle", f)).read()
        if re.search(r"^\s*(import|from)\s+(tlexport|dpkt|scapy)\b", src, re.M):
            bad.append(f)
    print("lint: model/observer modules importing tlexport/dpkt/scapy:", bad or "none")
    return not bad


def model_validation():
    ok = True
    for script in ("validate_tls_model.py", "validate_quic_model.py"):
        cp = subprocess.run([PY, "-X", "utf8", os.path.join(ROOT, "selftest", script)], capture_output=True, text=True,
                            env=dict(os.environ, PYTHONWARNINGS="ignore"))
        last = cp.stdout.strip().splitlines()[-1] if cp.stdout.strip() else cp.stderr[-300:]
        print("model validation %s: exit %d: %s" % (script, cp.returncode, last))
        ok = ok and cp.returncode == 0
    return ok


def digest_main(argv):
    """child: print 'prop idx digest' for generated+expanded scenarios (no SUT involved)"""
    from . import world
    pid, start, count = argv[0], int(argv[1]), int(argv[2])
    prop = harness.load_prop(pid)
    for i in range(start, start + count):
        seed = harness.scenario_seed(0, pid, "quick", i)
        spec = prop.gen(seed, i, "quick")
        spec["hashseed"] = harness.hashseed_of(seed)
        ex = world.expand(prop.primary_spec(spec))
        h = hashlib.sha256((world.artefact_digest(ex) + json.dumps(spec, sort_keys=True)).encode()).hexdigest()[:20]
        print(pid, i, h)
    return 0


def determinism(n=200):
    """same seeds expanded in fresh interpreters with different PYTHONHASHSEED and process layouts"""
    ok = True
    t0 = time.time()
    for pid in DET_PROPS:
        start = 1100 if pid in ("C05",) else 0
        outs = []
        for hs, chunks in (("0", 1), ("98765", 4), ("random", 2)):
            per = n // chunks
            procs = []
            for c in range(chunks):
                env = dict(os.environ, PYTHONHASHSEED=hs, PYTHONPATH=ROOT, PYTHONWARNINGS="ignore")
                procs.append(subprocess.Popen([PY, "-X", "utf8", "-c", "import sys; from simtle import selftest; "
                                               "sys.exit(selftest.digest_main(sys.argv[1:]))", pid, str(start + c * per), str(per)],
                                              stdout=subprocess.PIPE, stderr=subprocess.PIPE, env=env, cwd=ROOT, text=True))
            lines = []
            for p in procs:
                so, se = p.communicate()
                if p.returncode != 0:
                    print("determinism child failed:", se[-500:])
                    ok = False
                lines += so.strip().splitlines()
            outs.append(sorted(lines))
        same = outs[0][:len(outs[1])] == outs[1] and outs[0][:len(outs[2])] == outs[2] and len(outs[1]) > 0
        print("determinism %s: %d scenarios x 3 process layouts / hash seeds: %s" % (pid, len(outs[1]), "identical" if same else "DIFFERENT"))
        if not same:
            ok = False
            for a, b in zip(outs[0], outs[1]):
                if a != b:
                    print("   first difference:", a, b)
                    break
    print("determinism took %.1fs" % (time.time() - t0))
    return ok


def run_check_on(tree, pid, count=None, tier="quick", timeout=900, seed="0"):
    scratch = os.path.join("/dev/shm", "tlev-selftest.%d" % os.getpid())
    os.makedirs(scratch, exist_ok=True)
    env = dict(os.environ, VERIF_REPO=tree, VERIF_EVIDENCE_DIR=os.path.join(scratch, "evidence"),
               VERIF_REPLAY_DIR=os.path.join(scratch, "replays"), VERIF_SEED=seed)
    cmd = [os.path.join(ROOT, "check"), pid, "--tier", tier]
    if count:
        cmd += ["--count", str(count)]
    t0 = time.time()
    try:
        cp = subprocess.run(cmd, capture_output=True, text=True, env=env, timeout=timeout)
        rc, out = cp.returncode, cp.stdout + cp.stderr
    except subprocess.TimeoutExpired:
        rc, out = 124, "timeout"
    shutil.rmtree(scratch, ignore_errors=True)
    return rc, out, time.time() - t0


def mutant_list(flt=None):
    items = []
    for p in sorted(glob.glob(os.path.join(ROOT, "selftest", "mutants", "*.patch"))):
        name = os.path.basename(p)[:-6]
        meta = {}
        head = open(p).read(600)
        m = re.search(r"#\s*property:\s*(\S+)", head)
        items.append({"name": name, "patch": p, "props": m.group(1).split(",") if m else [], "kind": "own"})
    for d in sorted(glob.glob(os.path.join(ROOT, "seeded", "*"))):
        mp = os.path.join(d, "meta.json")
        pp = os.path.join(d, "patch.diff")
        if os.path.exists(mp) and os.path.exists(pp):
            meta = json.load(open(mp))
            items.append({"name": os.path.basename(d), "patch": pp, "props": meta.get("detect_with") or [meta.get("property")],
                          "kind": "seeded", "demo": os.path.join(d, "demo.py") if os.path.exists(os.path.join(d, "demo.py")) else None})
    if flt:
        items = [i for i in items if flt in i["name"]]
    return items


def sensitivity(flt=None, with_tests=False):
    repo = harness.SUT.repo_path()
    results = []
    for it in mutant_list(flt):
        tree = "/dev/shm/tlev-mut.%d" % os.getpid()
        shutil.rmtree(tree, ignore_errors=True)
        subprocess.check_call(["rsync", "-a", "--exclude", ".git", "--exclude", "__pycache__", repo + "/", tree + "/"])
        ap = subprocess.run(["patch", "-p1", "-s", "-d", tree, "-i", it["patch"]], capture_output=True, text=True)
        r = {"name": it["name"], "kind": it["kind"], "props": it["props"], "applied": ap.returncode == 0}
        if ap.returncode != 0:
            r["error"] = (ap.stdout + ap.stderr)[-300:]
            results.append(r)
            print("%-34s patch does not apply: %s" % (it["name"], r["error"][:120]))
            shutil.rmtree(tree, ignore_errors=True)
            continue
        if with_tests:
            tp = subprocess.run([PY, "-m", "pytest", "-q", "-p", "no:cacheprovider", "--timeout=900"], cwd=tree,
                                capture_output=True, text=True)
            m = re.search(r"(\d+) passed", tp.stdout)
            r["tests_passed"] = int(m.group(1)) if m else 0
        r["checks"] = {}
        caught = False
        for pid in it["props"]:
            rc, out, wall = run_check_on(tree, pid)
            viol = [l for l in out.splitlines() if l.startswith("VIOLATION")]
            cls = [l.strip() for l in out.splitlines() if l.strip().startswith("class:")]
            r["checks"][pid] = {"exit": rc, "violations": len(viol), "classes": cls[:3], "wall_s": round(wall, 1)}
            if rc == 1 and viol:
                caught = True
        r["caught"] = caught
        results.append(r)
        print("%-34s %-7s %s  %s" % (it["name"], it["kind"], "CAUGHT" if caught else "MISSED",
                                     {k: (v["exit"], v["classes"][:1]) for k, v in r["checks"].items()}))
        shutil.rmtree(tree, ignore_errors=True)
    rep = os.path.join(ROOT, "selftest", "sensitivity_report.json")
    old = []
    if flt and os.path.exists(rep):
        old = [x for x in json.load(open(rep)).get("results", []) if x["name"] not in set(r["name"] for r in results)]
    allr = sorted(old + results, key=lambda x: x["name"])
    json.dump({"results": allr, "caught": sum(1 for x in allr if x.get("caught")), "total": len(allr)},
              open(rep, "w"), indent=1)
    print("sensitivity: %d of %d mutants caught" % (sum(1 for x in results if x.get("caught")), len(results)))
    return all(x.get("caught") for x in results)


def main(argv):
    what = argv[0] if argv else "quick"
    if what == "quick":
        ok = lint()
        ok = model_validation() and ok
        ok = determinism(120) and ok
        print("SELFTEST", "PASSED" if ok else "FAILED")
        return 0 if ok else 1
    if what == "determinism":
        return 0 if determinism(int(argv[1]) if len(argv) > 1 else 400) else 1
    if what == "sensitivity":
        flt = None
        wt = False
        for a in argv[1:]:
            if a == "--with-tests":
                wt = True
            else:
                flt = a
        return 0 if sensitivity(flt, wt) else 1
    if what == "lint":
        return 0 if lint() else 1
    if what == "models":
        return 0 if model_validation() else 1
    print("unknown selftest", what)
    return 2
