"""Client side of the fork server: starts fresh interpreters for the real TLExport, one per PYTHONHASHSEED."""
import json
import os
import shutil
import subprocess
import sys
import signal

HERE = os.path.dirname(os.path.abspath(__file__))
PY = os.environ.get("VERIF_PYTHON", "/venv/bin/python")
SHM = "/dev/shm" if os.path.isdir("/dev/shm") else "/var/tmp"


def repo_path():
    return os.environ.get("VERIF_REPO", "/repo")


class HarnessError(Exception):
    pass


class RunResult:
    __slots__ = ("exit", "exc", "out", "stdout", "cpu_exceeded", "wall_s", "probes", "raw", "files")

    def failed(self):
        return self.exit != 0 or self.exc is not None or self.cpu_exceeded


class Sut:
    """one fork server (fresh interpreter, explicit PYTHONHASHSEED, imports tlexport from VERIF_REPO)"""

    def __init__(self, hashseed=0, tag="x"):
        self.hashseed = hashseed
        self.base = os.path.join(SHM, "tlev.%d.%s.%d" % (os.getpid(), tag, hashseed))
        shutil.rmtree(self.base, ignore_errors=True)
        os.makedirs(self.base)
        env = {"PATH": "/usr/bin:/bin", "PYTHONHASHSEED": str(hashseed), "VERIF_REPO": repo_path(),
               "PYTHONDONTWRITEBYTECODE": "1"}
        self.p = subprocess.Popen([PY, "-X", "utf8", os.path.join(HERE, "sut_server.py")], stdin=subprocess.PIPE,
                                  stdout=subprocess.PIPE, stderr=subprocess.PIPE, env=env, cwd=self.base)
        line = self.p.stdout.readline()
        if not line:
            err = self.p.stderr.read().decode(errors="replace")
            raise HarnessError("SUT server failed to start: " + err[-2000:])
        self.info = json.loads(line)
        self.n = 0

    def close(self):
        try:
            self.p.stdin.write(b'{"quit":true}\n')
            self.p.stdin.flush()
            self.p.stdin.close()
            self.p.wait(timeout=5)
        except Exception:
            try:
                self.p.kill()
            except Exception:
                pass
        shutil.rmtree(self.base, ignore_errors=True)

    def run(self, capture: bytes, keylog, argv_opts, probes=None, pn_preset=None, cpu=120, extra_runs=None,
            cwd_sub=None, env=None, infile_name="in.pcapng", keep=False, pre_out=None, s_missing=False, inplace=False):
        """argv_opts: list of extra CLI options (without -i/-o/-s).  keylog: bytes or None (no -s option).
        extra_runs: optional list of dict(capture, keylog, argv_opts) executed IN THE SAME PROCESS before/after
        (see C18); returns list of RunResult (one per run)."""
        self.n += 1
        rundir = os.path.join(self.base, "r%d" % self.n)
        os.makedirs(rundir)
        runs = []
        specs = [dict(capture=capture, keylog=keylog, argv_opts=argv_opts, pre_out=pre_out, s_missing=s_missing,
                      inplace=inplace)] + \
            list(extra_runs or [])
        outs = []
        for j, sp in enumerate(specs):
            inp = os.path.join(rundir, "%d_%s" % (j, infile_name))
            with open(inp, "wb") as f:
                f.write(sp["capture"])
            outp = os.path.join(rundir, "%d_out.pcapng" % j)
            if sp.get("inplace"):
                outp = inp          # -i X -o X: the capture is replaced by its export
            if sp.get("pre_out") is not None:
                # the output path already holds a file left by an earlier export
                with open(outp, "wb") as f:
                    f.write(sp["pre_out"])
            argv = ["-i", inp, "-o", outp]
            if sp.get("s_missing"):
                argv += ["-s", os.path.join(rundir, "%d_no_such_keys.log" % j)]      # names a file that does not exist
            elif sp["keylog"] is not None:
                kp = os.path.join(rundir, "%d_keys.log" % j)
                with open(kp, "wb") as f:
                    f.write(sp["keylog"])
                argv += ["-s", kp]
            argv += list(sp["argv_opts"])
            cwd = rundir
            if cwd_sub:
                cwd = os.path.join(rundir, cwd_sub)
                os.makedirs(cwd, exist_ok=True)
            runs.append({"argv": argv, "cwd": cwd})
            outs.append(outp)
        req = {"dir": rundir, "runs": runs, "cpu": cpu, "wall": max(600, cpu * 10)}
        if probes:
            req["probes"] = probes
        if pn_preset:
            req["pn_preset"] = pn_preset
        if env:
            req["env"] = env
        try:
            self.p.stdin.write((json.dumps(req) + "\n").encode())
            self.p.stdin.flush()
            line = self.p.stdout.readline()
        except BrokenPipeError:
            line = b""
        if not line:
            err = b""
            try:
                err = self.p.stderr.read()
            except Exception:
                pass
            raise HarnessError("SUT server died: " + err.decode(errors="replace")[-2000:])
        rep = json.loads(line)
        if rep.get("wall_timeout"):
            raise HarnessError("wall timeout in SUT run (classified as harness error, not violation)")
        status = None
        sp = os.path.join(rundir, "status.json")
        if os.path.exists(sp):
            try:
                status = json.load(open(sp))
            except Exception:
                status = None
        results = []
        try:
            stdout = open(os.path.join(rundir, "stdout.txt"), "rb").read()[-20000:].decode(errors="replace")
        except Exception:
            stdout = ""
        cpu_exceeded = rep.get("signal") in (signal.SIGXCPU, signal.SIGKILL) and status is None
        if status is None and not cpu_exceeded:
            raise HarnessError("SUT child vanished: %r stdout=%s" % (rep, stdout[-500:]))
        if status is not None and status.get("harness_error"):
            raise HarnessError("probe/harness error in child: " + status["harness_error"])
        for j in range(len(specs)):
            r = RunResult()
            r.cpu_exceeded = cpu_exceeded
            r.wall_s = rep["wall_s"]
            r.stdout = stdout
            r.probes = (status or {}).get("probes")
            r.raw = rep
            if status is not None and j < len(status["runs"]):
                r.exit = status["runs"][j]["exit"]
                r.exc = status["runs"][j]["exc"]
            else:
                r.exit = None
                r.exc = None
            try:
                r.out = open(outs[j], "rb").read()
            except FileNotFoundError:
                r.out = None
            r.files = rundir
            results.append(r)
        if not keep:
            shutil.rmtree(rundir, ignore_errors=True)
        return results


def run_cli_subprocess(capture, keylog, argv_opts, hashseed=0, cwd=None, env_extra=None, timeout=300):
    """a real `python -m tlexport.main` in a fresh interpreter (faithfulness sample, C18)"""
    d = os.path.join(SHM, "tlev-cli.%d" % os.getpid())
    shutil.rmtree(d, ignore_errors=True)
    os.makedirs(d)
    try:
        inp = os.path.join(d, "in.pcapng")
        open(inp, "wb").write(capture)
        outp = os.path.join(d, "out.pcapng")
        argv = [PY, "-X", "utf8", "-m", "tlexport.main", "-i", inp, "-o", outp]
        if keylog is not None:
            kp = os.path.join(d, "k.log")
            open(kp, "wb").write(keylog)
            argv += ["-s", kp]
        argv += list(argv_opts)
        env = {"PATH": "/usr/bin:/bin", "PYTHONHASHSEED": str(hashseed), "PYTHONPATH": repo_path(),
               "PYTHONDONTWRITEBYTECODE": "1"}
        env.update(env_extra or {})
        wd = cwd or d
        os.makedirs(wd, exist_ok=True)
        cp = subprocess.run(argv, env=env, cwd=wd, capture_output=True, timeout=timeout)
        out = open(outp, "rb").read() if os.path.exists(outp) else None
        return cp.returncode, out, (cp.stdout + cp.stderr).decode(errors="replace")[-4000:]
    finally:
        shutil.rmtree(d, ignore_errors=True)
