"""Batch driver: seeded search over scenarios on N lanes, known-finding attribution by differential re-run,
delta-debugging minimisation, replay files, evidence."""
import base64
import copy
import hashlib
import importlib
import json
import os
import re
import shutil
import subprocess
import sys
import time
import traceback

from .rng import H64
from . import sut as SUT

ROOT = os.path.dirname(os.path.dirname(os.path.abspath(__file__)))
PY = SUT.PY


def load_prop(pid):
    mod = importlib.import_module("simtle.props." + pid)
    return mod.PROP


class Violation:
    def __init__(self, oracle, cls, detail="", focus=None):
        self.oracle = oracle
        self.cls = cls
        self.detail = detail
        self.focus = focus

    def key(self):
        return "%s|%s" % (self.oracle, self.cls)

    def to_json(self):
        return {"oracle": self.oracle, "class": self.cls, "detail": str(self.detail)[:2000]}


class Outcome:
    """result of checking one scenario"""

    def __init__(self):
        self.violations = []
        self.counters = {}
        self.nontrivial = False
        self.digest = None
        self.exports = 0
        self.sample = None
        self.sim_time_ns = 0
        self.sets = {}
        self.items = []        # non-trivial cases finer than the scenario: (scenario, fault) / (scenario, variant) ...

    def item(self, text):
        self.items.append(text)

    def count(self, k, n=1):
        self.counters[k] = self.counters.get(k, 0) + n

    def add(self, setname, item):
        self.sets.setdefault(setname, set()).add(item)

    def violate(self, oracle, cls, detail="", focus=None):
        self.violations.append(Violation(oracle, cls, detail, focus))


class Lane:
    """owns the SUT fork servers of this worker process"""

    def __init__(self, tag):
        self.tag = tag
        self.suts = {}
        self.deadline = None      # wall-clock end of the batch; long enumerations inside one scenario stop there

    def expired(self):
        return self.deadline is not None and time.time() > self.deadline

    def sut(self, hashseed=0):
        s = self.suts.get(hashseed)
        if s is None:
            s = self.suts[hashseed] = SUT.Sut(hashseed, self.tag)
        return s

    def close(self):
        for s in self.suts.values():
            s.close()
        self.suts = {}


# ------------------------------------------------------------------------------------------------
# known findings
# ------------------------------------------------------------------------------------------------

def load_known_findings():
    path = os.path.join(ROOT, "KNOWN_FINDINGS.txt")
    out = []
    if not os.path.exists(path):
        return out
    for line in open(path):
        line = line.strip()
        if not line.startswith("finding:"):
            continue
        head, _, what = line[len("finding:"):].partition("::")
        kv = dict(p.split("=", 1) for p in head.split())
        kv["what"] = what.strip()
        out.append(kv)
    return out


# ------------------------------------------------------------------------------------------------
# minimisation
# ------------------------------------------------------------------------------------------------

def spec_size(spec):
    return len(json.dumps(spec, sort_keys=True))


def reduction_candidates(spec):
    """yield (description, candidate spec) simpler than spec; generic over the spec format"""
    conns = spec.get("conns", [])
    if len(conns) > 1:
        for j in range(len(conns)):
            c = copy.deepcopy(spec)
            del c["conns"][j]
            yield "drop conn %d" % conns[j]["id"], c
    fl = spec.get("faults", [])
    if fl:
        if len(fl) > 1:
            for j in range(len(fl)):
                c = copy.deepcopy(spec)
                del c["faults"][j]
                yield "drop fault %d" % j, c
    for key, simple in (("policy", "sequential"),):
        if spec.get(key) != simple and len(conns) > 1:
            c = copy.deepcopy(spec)
            c[key] = simple
            yield "policy sequential", c
    for key in ("container", "keychan"):
        if spec.get(key):
            c = copy.deepcopy(spec)
            c.pop(key)
            yield "default " + key, c
    if spec.get("tap", {}).get("steps"):
        c = copy.deepcopy(spec)
        c["tap"]["steps"] = []
        yield "no clock steps", c
    for j, conn in enumerate(conns):
        tcp = conn.get("tcp")
        if tcp:
            if tcp.get("acts") and any(tcp["acts"].get(d) for d in "cs"):
                c = copy.deepcopy(spec)
                c["conns"][j]["tcp"]["acts"] = {}
                yield "conn %d: no net actions" % conn["id"], c
                for d in "cs":
                    for a in range(len(tcp["acts"].get(d, []))):
                        c = copy.deepcopy(spec)
                        del c["conns"][j]["tcp"]["acts"][d][a]
                        yield "conn %d: drop action %s%d" % (conn["id"], d, a), c
            if tcp.get("cutmode") != "record":
                c = copy.deepcopy(spec)
                c["conns"][j]["tcp"]["cutmode"] = "record"
                c["conns"][j]["tcp"].pop("cuts", None)
                c["conns"][j]["tcp"]["acts"] = {}
                yield "conn %d: one record = one segment" % conn["id"], c
                for d in "cs":
                    cl = tcp.get("cuts", {}).get(d, [])
                    if len(cl) > 1:
                        for half in (cl[:len(cl) // 2], cl[len(cl) // 2:]):
                            c = copy.deepcopy(spec)
                            c["conns"][j]["tcp"]["cuts"][d] = half
                            c["conns"][j]["tcp"]["acts"] = {}
                            yield "conn %d: halve cuts %s" % (conn["id"], d), c
                    if 0 < len(cl) <= 12:
                        for a in range(len(cl)):
                            c = copy.deepcopy(spec)
                            del c["conns"][j]["tcp"]["cuts"][d][a]
                            c["conns"][j]["tcp"]["acts"] = {}
                            yield "conn %d: drop cut %s%d" % (conn["id"], d, a), c
            for k2, v2 in (("ctl", False), ("opts", False), ("isn_c", 1000), ("isn_s", 5000)):
                if tcp.get(k2) != v2:
                    c = copy.deepcopy(spec)
                    c["conns"][j]["tcp"][k2] = v2
                    yield "conn %d: tcp %s=%s" % (conn["id"], k2, v2), c
        recs = conn.get("recs")
        if recs:
            n = len(recs)
            if n > 1:
                for half in (recs[:n // 2], recs[n // 2:]):
                    c = copy.deepcopy(spec)
                    c["conns"][j]["recs"] = half
                    c["conns"][j]["fl"] = [1] * len(half)
                    c["conns"][j].pop("tickets", None)
                    yield "conn %d: halve records" % conn["id"], c
            if n <= 10:
                for a in range(n):
                    c = copy.deepcopy(spec)
                    del c["conns"][j]["recs"][a]
                    c["conns"][j]["fl"] = [1] * (n - 1)
                    c["conns"][j].pop("tickets", None)
                    yield "conn %d: drop record %d" % (conn["id"], a), c
            for a, r in enumerate(recs):
                for newn in (0, 1, r["n"] // 2):
                    if newn < r["n"]:
                        c = copy.deepcopy(spec)
                        c["conns"][j]["recs"][a]["n"] = newn
                        yield "conn %d: record %d length %d" % (conn["id"], a, newn), c
                        break
                if r.get("pad"):
                    c = copy.deepcopy(spec)
                    c["conns"][j]["recs"][a].pop("pad")
                    yield "conn %d: record %d no pad" % (conn["id"], a), c
        for k2, v2 in (("resume", False), ("close", False), ("merge_first", False), ("nst", None),
                       ("tickets", None), ("shaped", None), ("hs_pad", 0), ("pad_eth", False), ("v6x", None)):
            if conn.get(k2) not in (None, v2, False, 0):
                c = copy.deepcopy(spec)
                if v2 is None:
                    c["conns"][j].pop(k2, None)
                else:
                    c["conns"][j][k2] = v2
                yield "conn %d: %s -> %s" % (conn["id"], k2, v2), c
        if conn.get("proto") == "tls":
            for k2, v2 in (("offered", [conn.get("suite")]), ("sid_len", 32), ("early_data_side", None), ("master_seed", None),
                           ("resumes", None), ("ch_noext", False), ("psk", False), ("exporter", True), ("hs_secrets", True),
                           ("ccs_s", True), ("ccs_c", True), ("nonce_seq", True)):
                if k2 in conn and conn[k2] != v2 and not (k2 in ("master_seed", "resumes") and conn.get("resume")):
                    c = copy.deepcopy(spec)
                    if v2 is None:
                        c["conns"][j].pop(k2, None)
                    else:
                        c["conns"][j][k2] = v2
                    yield "conn %d: %s -> %s" % (conn["id"], k2, v2), c
        for k2 in ("srv_group", "cli_group", "enc_group", "cli_enc_group"):
            if conn.get(k2) and conn[k2] != [1] * len(conn[k2]):
                c = copy.deepcopy(spec)
                c["conns"][j][k2] = [1] * len(conn[k2])
                yield "conn %d: %s ungrouped" % (conn["id"], k2), c
        q = conn.get("q")
        if q:
            from . import quicconn
            for desc, qc in quicconn.reduction_candidates(conn):
                c = copy.deepcopy(spec)
                c["conns"][j] = qc
                yield "conn %d: %s" % (conn["id"], desc), c


def minimise(check_fn, spec, target_key, budget_s=60, log=None, extra=None):
    """greedy delta debugging: accept any simpler candidate for which check_fn(candidate) still yields a
    violation with key == target_key"""
    t0 = time.time()
    cur = spec
    steps = 0
    tried = 0
    improved = True
    trace = []
    while improved and time.time() - t0 < budget_s:
        improved = False
        import itertools
        for desc, cand in itertools.chain(extra(cur) if extra else (), reduction_candidates(cur)):
            if time.time() - t0 > budget_s:
                break
            if json.dumps(cand, sort_keys=True) == json.dumps(cur, sort_keys=True):
                continue
            tried += 1
            try:
                keys = check_fn(cand)
            except Exception:
                continue
            if target_key in keys:
                cur = cand
                steps += 1
                trace.append(desc)
                improved = True
                break
    return cur, {"steps": steps, "tried": tried, "before": spec_size(spec), "after": spec_size(cur),
                 "trace": trace[-40:], "wall_s": round(time.time() - t0, 2)}


# ------------------------------------------------------------------------------------------------
# lane main loop
# ------------------------------------------------------------------------------------------------

def scenario_seed(batch_seed, pid, tier, i):
    return H64("simtle-batch", batch_seed, pid, tier, i)


def hashseed_of(seed):
    return H64(seed, "sut-hashseed") % 4


def lane_indices(batch_seed, pid, tier, lane, nlanes):
    """infinite generator of scenario indices for this lane; independent of timing"""
    if nlanes >= 4 and nlanes % 4 == 0:
        group = lane % 4
        per = nlanes // 4
        sub = lane // 4
        rank = 0
        i = 0
        while True:
            if hashseed_of(scenario_seed(batch_seed, pid, tier, i)) == group:
                if rank % per == sub:
                    yield i
                rank += 1
            i += 1
    else:
        i = lane
        while True:
            yield i
            i += nlanes


def check_keys(prop, lane, spec):
    out = prop.check(lane, spec)
    return set(v.key() for v in out.violations)


def triage(prop, lane, spec, viol, findings, min_budget):
    """known-finding attribution by neutraliser re-run, else minimise + replay file"""
    key = viol.key()
    if hasattr(prop, "focus_spec"):
        # narrow the scenario to the plan / fault / variant that failed before attributing or minimising
        try:
            fs = prop.focus_spec(copy.deepcopy(spec), viol)
            if fs is not None and key in check_keys(prop, lane, fs):
                spec = fs
        except SUT.HarnessError:
            raise
        except Exception:
            pass
    for f in findings:
        if f.get("property") != prop.id:
            continue
        if f.get("oracle") not in (None, "*", viol.oracle):
            continue
        if not re.search(f.get("class", ".*"), viol.cls):
            continue
        neut = prop.neutralisers().get(f.get("neutraliser"))
        if neut is None:
            continue
        if f.get("precond"):
            # the finding names the specific history that fails; a scenario without it is never attributed
            pre = getattr(prop, "preconditions", lambda: {})().get(f["precond"])
            try:
                if pre is None or not pre(copy.deepcopy(spec)):
                    continue
            except Exception:
                continue
        spec2 = neut(copy.deepcopy(spec))
        if spec2 is None or json.dumps(spec2, sort_keys=True) == json.dumps(spec, sort_keys=True):
            continue   # the trigger of this finding is not present in the scenario
        try:
            keys2 = check_keys(prop, lane, spec2)
        except SUT.HarnessError:
            raise
        if key not in keys2:
            return {"kind": "known", "kf": f.get("id"), "what": f.get("what"), "key": key}
    small, mstats = minimise(lambda s: check_keys(prop, lane, s), spec, key, budget_s=min_budget,
                             extra=getattr(prop, "reduction_candidates", None))
    return {"kind": "violation", "key": key, "spec": small, "min": mstats, "orig_digest": spec_digest(spec)}


def spec_digest(spec):
    return hashlib.sha256(json.dumps(spec, sort_keys=True).encode()).hexdigest()[:16]


def lane_main(args):
    pid = args["prop"]
    prop = load_prop(pid)
    lane = Lane("L%d" % args["lane"])
    findings = load_known_findings()
    t_end = args["deadline"]
    count = args.get("count")
    outp = open(args["out"], "w")
    agg = {"evaluations": 0, "exports": 0, "counters": {}, "nontrivial_digests": [], "samples": [],
           "violations": [], "known": {}, "sim_time_ns": 0, "sets": {}, "harness_errors": [], "first_idx": None,
           "last_idx": None, "scenarios": 0}
    reported = set()
    n_min = 0
    try:
        for i in lane_indices(args["batch_seed"], pid, args["tier"], args["lane"], args["nlanes"]):
            if count is not None and i >= count:
                break
            if time.time() > t_end:
                break
            seed = scenario_seed(args["batch_seed"], pid, args["tier"], i)
            try:
                spec = prop.gen(seed, i, args["tier"])
                spec["hashseed"] = hashseed_of(seed)
                spec["seed"] = seed
                spec["idx"] = i
                lane.deadline = t_end + 5
                out = prop.check(lane, spec)
                lane.deadline = None
            except SUT.HarnessError as e:
                agg["harness_errors"].append("idx %d seed %d: %s" % (i, seed, str(e)[:500]))
                lane.close()
                continue
            except Exception:
                agg["harness_errors"].append("idx %d seed %d: %s" % (i, seed, traceback.format_exc()[-1500:]))
                continue
            agg["scenarios"] += 1
            agg["evaluations"] += max(1, out.exports)
            agg["exports"] += out.exports
            agg["sim_time_ns"] += out.sim_time_ns
            agg["first_idx"] = i if agg["first_idx"] is None else agg["first_idx"]
            agg["last_idx"] = i
            for k, v in out.counters.items():
                agg["counters"][k] = agg["counters"].get(k, 0) + v
            for k, v in out.sets.items():
                agg["sets"].setdefault(k, set()).update(v)
            if out.items:
                sd = spec_digest(spec)
                agg["nontrivial_digests"].extend(hashlib.sha256((sd + "|" + it).encode()).hexdigest()[:16]
                                                 for it in set(out.items))
            elif out.nontrivial:
                agg["nontrivial_digests"].append(out.digest or spec_digest(spec))
            if out.sample is not None and len(agg["samples"]) < 3:
                agg["samples"].append(out.sample)
            seen_here = set()
            for v in out.violations:
                if v.key() in seen_here:
                    continue
                seen_here.add(v.key())
                if v.key() in reported:
                    agg["counters"]["repeat:" + v.key()] = agg["counters"].get("repeat:" + v.key(), 0) + 1
                    continue
                if n_min >= args.get("max_triage", 4):
                    agg["counters"]["untriaged_violation"] = agg["counters"].get("untriaged_violation", 0) + 1
                    agg["violations"].append({"kind": "violation", "key": v.key(), "spec": spec, "seed": seed,
                                              "idx": i, "detail": v.to_json(), "min": {"skipped": True},
                                              "orig_digest": spec_digest(spec)})
                    reported.add(v.key())
                    continue
                try:
                    lane.deadline = None
                    tr = triage(prop, lane, spec, v, findings, args.get("min_budget", 60))
                except SUT.HarnessError as e:
                    agg["harness_errors"].append("triage idx %d: %s" % (i, str(e)[:500]))
                    lane.close()
                    continue
                tr["seed"] = seed
                tr["idx"] = i
                tr["detail"] = v.to_json()
                if tr["kind"] == "known":
                    k = tr["kf"]
                    ent = agg["known"].setdefault(k, {"count": 0, "what": tr["what"], "keys": []})
                    ent["count"] += 1
                    if tr["key"] not in ent["keys"]:
                        ent["keys"].append(tr["key"])
                else:
                    n_min += 1
                    reported.add(v.key())
                    agg["violations"].append(tr)
    finally:
        lane.close()
    agg["sets"] = {k: sorted(v) for k, v in agg["sets"].items()}
    json.dump(agg, outp)
    outp.close()


# ------------------------------------------------------------------------------------------------
# replay files
# ------------------------------------------------------------------------------------------------

def write_replay(prop, tr, batch_seed, tier):
    from . import world
    rdir = os.environ.get("VERIF_REPLAY_DIR") or os.path.join(ROOT, "replays")
    os.makedirs(rdir, exist_ok=True)
    spec = tr["spec"]
    name = "%s-%d-%s.json" % (prop.id, tr["seed"] % 10**10, spec_digest(spec)[:8])
    path = os.path.join(rdir, name)
    doc = {"property": prop.id, "violation": tr["detail"], "key": tr["key"], "seed": tr["seed"], "idx": tr["idx"],
           "batch_seed": batch_seed, "tier": tier, "orig_spec_digest": tr.get("orig_digest"),
           "minimisation": tr.get("min"), "spec": spec}
    try:
        ex = world.expand(prop.primary_spec(spec))
        doc["artefacts"] = {"capture_b64": base64.b64encode(ex["capture"]).decode(),
                            "keylog_b64": base64.b64encode(ex["keylog"]).decode() if ex["keylog"] is not None else None,
                            "argv": ex["argv"], "digest": world.artefact_digest(ex)}
        doc["trace"] = [{k: e[k] for k in ("i", "t", "ts", "conn", "d", "lo", "hi", "dg", "ctl", "dup") if k in e}
                        for e in ex["taplog"][:400]]
    except Exception:
        doc["artefacts_error"] = traceback.format_exc()[-800:]
    with open(path, "w") as f:
        json.dump(doc, f, indent=1, sort_keys=True, default=_jsonable)
    return path


def _lines_by_file(lines):
    """distinct executed lines of tlexport/*.py in the sampled (every 25th scenario) traced runs of this batch"""
    by = {}
    for l in lines:
        fn = l.rsplit(":", 1)[0]
        by[fn] = by.get(fn, 0) + 1
    by["_total"] = sum(by.values())
    by["_note"] = "sys.settrace line events in a 1-in-25 sample of scenarios (every 25th index) (first export of the scenario)"
    return by


def _jsonable(o):
    if isinstance(o, (bytes, bytearray)):
        return bytes(o).hex()
    if isinstance(o, set):
        return sorted(o)
    return str(o)


def replay(path, quiet=False):
    """-> exit code: 1 violation reproduced, 0 not reproduced, 2 harness problem"""
    from . import world
    doc = json.load(open(path))
    prop = load_prop(doc["property"])
    lane = Lane("replay")
    try:
        spec = doc["spec"]
        out = prop.check(lane, spec)
        keys = set(v.key() for v in out.violations)
        same = doc["key"] in keys
        art_ok = None
        if "artefacts" in doc:
            ex = world.expand(prop.primary_spec(spec))
            art_ok = world.artefact_digest(ex) == doc["artefacts"]["digest"]
        if not quiet:
            print("replay %s: property=%s expected=%s reproduced=%s artefacts_identical=%s" % (
                path, doc["property"], doc["key"], same, art_ok))
            for v in out.violations:
                if v.key() == doc["key"]:
                    print("  detail:", str(v.detail)[:1000])
                    break
        if art_ok is False:
            print("HARNESS-ERROR: re-expansion of the replay spec does not give the recorded artefacts")
            return 2
        if same:
            print("VIOLATION property=%s replay=%s" % (doc["property"], path))
            return 1
        return 0
    finally:
        lane.close()


# ------------------------------------------------------------------------------------------------
# batch driver
# ------------------------------------------------------------------------------------------------

def run_batch(pid, tier, batch_seed, nlanes=None, budget_s=None, count=None):
    prop = load_prop(pid)
    nlanes = nlanes or int(os.environ.get("VERIF_WORKERS", "16"))
    t0 = time.time()
    plan = prop.plan(tier)
    if count is None:
        count = plan.get("count")
    if budget_s is None:
        budget_s = plan.get("budget_s", 120)
    deadline = t0 + budget_s
    bdir = os.path.join(SUT.SHM, "tlev-batch.%d" % os.getpid())
    shutil.rmtree(bdir, ignore_errors=True)
    os.makedirs(bdir)
    procs = []
    env = dict(os.environ)
    env["PYTHONHASHSEED"] = "0"
    env["PYTHONPATH"] = ROOT
    env["PYTHONWARNINGS"] = "ignore"
    for L in range(nlanes):
        a = {"prop": pid, "tier": tier, "batch_seed": batch_seed, "lane": L, "nlanes": nlanes, "deadline": deadline,
             "count": count, "out": os.path.join(bdir, "lane%d.json" % L),
             "min_budget": plan.get("min_budget", 45), "max_triage": plan.get("max_triage", 3)}
        p = subprocess.Popen([PY, "-X", "utf8", "-c", "import sys,json; from simtle import harness; "
                              "harness.lane_main(json.loads(sys.argv[1]))", json.dumps(a)], env=env, cwd=ROOT,
                             stdout=subprocess.PIPE, stderr=subprocess.STDOUT)
        procs.append((L, p, a))
    lane_out = []
    harness_errors = []
    hard = budget_s + 3 * plan.get("min_budget", 45) * plan.get("max_triage", 3) + 900
    for L, p, a in procs:
        try:
            so, _ = p.communicate(timeout=max(10, t0 + hard - time.time()))
        except subprocess.TimeoutExpired:
            p.kill()
            so, _ = p.communicate()
            harness_errors.append("lane %d exceeded the hard wall limit" % L)
        if p.returncode != 0:
            harness_errors.append("lane %d exit %s: %s" % (L, p.returncode, so.decode(errors="replace")[-1500:]))
        try:
            lane_out.append(json.load(open(a["out"])))
        except Exception as e:
            harness_errors.append("lane %d produced no result: %r" % (L, e))
    shutil.rmtree(bdir, ignore_errors=True)
    # aggregate
    agg = {"scenarios": 0, "evaluations": 0, "exports": 0, "counters": {}, "digests": set(), "samples": [],
           "violations": [], "known": {}, "sim_time_ns": 0, "sets": {}, "first_idx": None, "last_idx": None}
    for lo in lane_out:
        agg["scenarios"] += lo["scenarios"]
        agg["evaluations"] += lo["evaluations"]
        agg["exports"] += lo["exports"]
        agg["sim_time_ns"] += lo["sim_time_ns"]
        for k, v in lo["counters"].items():
            agg["counters"][k] = agg["counters"].get(k, 0) + v
        for k, v in lo["sets"].items():
            agg["sets"].setdefault(k, set()).update(v)
        agg["digests"].update(lo["nontrivial_digests"])
        agg["samples"].extend(lo["samples"][:1])
        agg["violations"].extend(lo["violations"])
        for k, v in lo["known"].items():
            e = agg["known"].setdefault(k, {"count": 0, "what": v["what"], "keys": []})
            e["count"] += v["count"]
            for kk in v["keys"]:
                if kk not in e["keys"]:
                    e["keys"].append(kk)
        harness_errors.extend(lo["harness_errors"])
        if lo["first_idx"] is not None:
            agg["first_idx"] = lo["first_idx"] if agg["first_idx"] is None else min(agg["first_idx"], lo["first_idx"])
            agg["last_idx"] = lo["last_idx"] if agg["last_idx"] is None else max(agg["last_idx"], lo["last_idx"])
    # report
    exit_code = 0
    for f in load_known_findings():
        if f.get("property") != pid:
            continue
        hit = agg["known"].get(f.get("id"), {"count": 0})["count"]
        print("KNOWN-FINDING: property=%s %s %s (attributed %d times in this batch)" % (pid, f.get("id"), f["what"], hit))
    # violations: write replay, confirm by replay in a fresh process
    seen = set()
    n_viol = 0
    for tr in sorted(agg["violations"], key=lambda t: (t["key"], t["idx"])):
        if tr["key"] in seen:
            continue
        seen.add(tr["key"])
        path = write_replay(prop, tr, batch_seed, tier)
        cp = subprocess.run([PY, "-X", "utf8", "-c", "import sys; from simtle import harness; "
                             "sys.exit(harness.replay(sys.argv[1], quiet=True))", path], env=env, cwd=ROOT,
                            capture_output=True, timeout=900)
        if cp.returncode == 1:
            n_viol += 1
            exit_code = 1
            print("VIOLATION property=%s replay=%s" % (pid, os.path.relpath(path, ROOT) if path.startswith(ROOT) else path))
            print("  class: %s" % tr["key"])
            print("  detail: %s" % str(tr["detail"].get("detail"))[:600])
            print("  seed=%d idx=%d minimised %s" % (tr["seed"], tr["idx"], json.dumps(tr.get("min", {}))[:300]))
        else:
            harness_errors.append("violation %s (seed %d) did not reproduce on replay (exit %d): %s" % (
                tr["key"], tr["seed"], cp.returncode, (cp.stdout + cp.stderr).decode(errors="replace")[-800:]))
            try:
                os.rename(path, path + ".unreproduced")
            except OSError:
                pass
    wall = time.time() - t0
    write_evidence(prop, tier, batch_seed, agg, wall, n_viol, harness_errors, nlanes)
    for h in harness_errors[:3]:
        print("HARNESS-ERROR:", h[-700:])
    if len(harness_errors) > 3:
        print("HARNESS-ERROR: ... %d more" % (len(harness_errors) - 3))
    print("%s %s: scenarios=%d exports=%d nontrivial=%d violations=%d known=%d harness_errors=%d wall=%.1fs" % (
        pid, tier, agg["scenarios"], agg["exports"], len(agg["digests"]), n_viol, len(agg["known"]),
        len(harness_errors), wall))
    if exit_code == 0 and (harness_errors and agg["scenarios"] == 0):
        return 2
    if exit_code == 0 and harness_errors:
        # harness problems never masquerade as success
        return 2
    return exit_code


def write_evidence(prop, tier, batch_seed, agg, wall, n_viol, harness_errors, nlanes):
    edir = os.environ.get("VERIF_EVIDENCE_DIR") or os.path.join(ROOT, "evidence")
    os.makedirs(edir, exist_ok=True)
    cov = {
        "evaluations": int(agg["evaluations"]),
        "distinct_nontrivial": len(agg["digests"]),
        "rule": prop.rule,
        "samples": agg["samples"][:4] or [{"note": "no scenario completed"}],
        "scenarios": agg["scenarios"],
        "exports_run": agg["exports"],
        "runs_per_hour": int(agg["exports"] / wall * 3600) if wall > 0 else 0,
        "scenarios_per_hour": int(agg["scenarios"] / wall * 3600) if wall > 0 else 0,
        "seeds": {"batch_seed": batch_seed, "first_index": agg["first_idx"], "last_index": agg["last_idx"],
                  "derivation": "seed_i = H64('simtle-batch', VERIF_SEED, property, tier, i)"},
        "simulated_time_s": round(agg["sim_time_ns"] / 1e9, 3),
        "fault_kinds_fired": {k[6:]: v for k, v in sorted(agg["counters"].items()) if k.startswith("fault:")},
        "reach_probes": {k[6:]: v for k, v in sorted(agg["counters"].items()) if k.startswith("reach:")},
        "reach_probes_zero": [p for p in getattr(prop, "reach", []) if not agg["counters"].get("reach:" + p)],
        "other_counters": {k: v for k, v in sorted(agg["counters"].items())
                           if not k.startswith(("fault:", "reach:"))},
        "distinct": {k: len(v) for k, v in sorted(agg["sets"].items())},
        "tlexport_lines_reached": _lines_by_file(agg["sets"].get("tlexport_lines", ())),
        "components": {
            "real_code": ["tlexport (imported from VERIF_REPO working tree, run via tlexport.main.run())", "dpkt",
                          "scapy", "cryptography/OpenSSL"],
            "simulated_models": ["TLS/QUIC peers", "TCP/UDP network paths", "capture tap + clock", "capture container writer",
                                 "key channel"],
            "harness_side": ["strict pcapng reader", "frame parser", "TCP reassembler", "oracles"]},
        "known_findings_hit": {k: v["count"] for k, v in agg["known"].items()},
        "harness_errors": len(harness_errors),
        "workers": nlanes,
    }
    if getattr(prop, "exhaustive_note", None):
        cov["exhaustive_parts"] = prop.exhaustive_note
    ev = {"property_id": prop.id, "tier": tier, "seed": int(batch_seed), "level": prop.level, "coverage": cov,
          "assumptions": list(prop.assumptions), "wall_s": round(wall, 2), "violations": n_viol}
    with open(os.path.join(edir, prop.id + ".json"), "w") as f:
        json.dump(ev, f, indent=1, sort_keys=True, default=_jsonable)
