"""One integer decides everything.

Rng is a SHA-256/counter-mode generator with *keyed* sub-streams: rng.fork("conn", 3)
yields a generator whose output depends only on the parent's key and the labels, never on
how much the parent has been used.  No use of random.Random method internals, os.urandom,
hash() or the wall clock.
"""
import hashlib
import struct


def H64(*parts):
    h = hashlib.sha256()
    for p in parts:
        if isinstance(p, bytes):
            b = p
        else:
            b = str(p).encode()
        h.update(struct.pack(">I", len(b)))
        h.update(b)
    return int.from_bytes(h.digest()[:8], "big")


class Rng:
    __slots__ = ("key", "ctr", "buf")

    def __init__(self, seed, *labels):
        h = hashlib.sha256()
        h.update(b"simtle-rng-v1")
        for p in (seed,) + labels:
            b = p if isinstance(p, bytes) else str(p).encode()
            h.update(struct.pack(">I", len(b)))
            h.update(b)
        self.key = h.digest()
        self.ctr = 0
        self.buf = b""

    def fork(self, *labels):
        return Rng(self.key, *labels)

    def bytes(self, n):
        while len(self.buf) < n:
            self.buf += hashlib.sha256(self.key + struct.pack(">Q", self.ctr)).digest()
            self.ctr += 1
        out, self.buf = self.buf[:n], self.buf[n:]
        return out

    def bits(self, k):
        n = (k + 7) // 8
        v = int.from_bytes(self.bytes(n), "big")
        return v >> (n * 8 - k)

    def below(self, n):
        """uniform integer in [0, n)"""
        if n <= 1:
            return 0
        k = (n - 1).bit_length()
        while True:
            v = self.bits(k)
            if v < n:
                return v

    def range(self, lo, hi):
        """uniform integer in [lo, hi] inclusive"""
        return lo + self.below(hi - lo + 1)

    def chance(self, num, den=100):
        return self.below(den) < num

    def choice(self, seq):
        return seq[self.below(len(seq))]

    def weighted(self, pairs):
        """pairs: [(item, weight), ...] integer weights"""
        tot = sum(w for _, w in pairs)
        x = self.below(tot)
        for it, w in pairs:
            if x < w:
                return it
            x -= w
        return pairs[-1][0]

    def shuffle(self, lst):
        for i in range(len(lst) - 1, 0, -1):
            j = self.below(i + 1)
            lst[i], lst[j] = lst[j], lst[i]
        return lst

    def sample(self, seq, k):
        lst = list(seq)
        self.shuffle(lst)
        return lst[:k]
