"""Fork server that runs the REAL TLExport (imported from VERIF_REPO's working tree) once per request.

Started as a fresh interpreter by simtle.sut.Sut with an explicit PYTHONHASHSEED.  Protocol: one JSON object per
line on stdin, one JSON object per line on stdout.  This file deliberately imports nothing from simtle.
"""
import json
import os
import resource
import signal
import sys
import time
import traceback


def _probe_install(kinds, rec):
    """harness-side observers (pure wrappers around existing attributes; no repo hook needed)"""
    import tlexport.session as S
    if "records" in kinds:
        orig = S.Session.handle_tls_record

        def w(self, record, isserver):
            try:
                md = [(float(p.timestamp), int(p.seq), len(p.tls_data)) for p in record.metadata]
            except Exception as e:  # pragma: no cover
                md = repr(e)
            rec.append(["rec", int(self.client_port), bool(isserver), bytes(record.raw).hex(), md])
            return orig(self, record, isserver)
        S.Session.handle_tls_record = w
    if "keys" in kinds:
        orig_g = S.Session.generate_keys

        def g(self, *a, **k):
            r = orig_g(self, *a, **k)
            d = self.decryptor
            ent = {"port": int(self.client_port)}
            if d is not None:
                for nm in ("client_key", "server_key", "client_iv", "server_iv", "client_mac", "server_mac",
                           "client_handshake_key", "server_handshake_key", "client_handshake_iv",
                           "server_handshake_iv", "client_application_key", "server_application_key",
                           "client_application_iv", "server_application_iv"):
                    v = getattr(d, nm, None)
                    if v is not None:
                        ent[nm] = bytes(v).hex()
                ent["version"] = getattr(getattr(d, "tls_version", None), "value", None)
                ent["etm"] = bool(getattr(d, "encrypt_then_mac", False))
                ent["tag"] = getattr(d, "tag_length", None)
            rec.append(["keys", ent])
            return r
        S.Session.generate_keys = g
        import tlexport.decryptor as D
        orig_u = D.Decryptor.update_keys

        def u(self, isserver):
            r = orig_u(self, isserver)
            rec.append(["keyupd", bool(isserver),
                        bytes(self.server_key if isserver else self.client_key).hex(),
                        bytes(self.server_iv if isserver else self.client_iv).hex()])
            return r
        D.Decryptor.update_keys = u
    if "quic" in kinds:
        import tlexport.quic.quic_session as Q

        def hexd(d):
            out = {}
            for k, v in d.items():
                if isinstance(v, (bytes, bytearray)):
                    out[k] = bytes(v).hex()
            return out
        o_i = Q.QuicSession.set_initial_decryptor

        def si(self, dcid, chacha20):
            r = o_i(self, dcid, chacha20)
            rec.append(["q_initial", int(self.client_port), bytes(dcid).hex(), bool(chacha20), hexd(self.keys)])
            return r
        Q.QuicSession.set_initial_decryptor = si
        o_t = Q.QuicSession.set_tls_decryptors

        def st(self, client_random, ciphersuite):
            r = o_t(self, client_random, ciphersuite)
            rec.append(["q_tls", int(self.client_port), bytes(ciphersuite).hex(), hexd(self.keys)])
            return r
        Q.QuicSession.set_tls_decryptors = st
        o_k = Q.key_update

        def ku(decryptor_n, hash_fun, key_length, cipher, quic_version):
            r = o_k(decryptor_n, hash_fun, key_length, cipher, quic_version)
            rec.append(["q_ku", [bytes(x).hex() for x in r.keys]])
            return r
        Q.key_update = ku
        o_p = Q.QuicSession.get_full_packet_number

        def pn(self, quic_packet):
            sp = Q.PACKET_TYPE_MAP[quic_packet.packet_type]
            tab = self.packet_number_server if quic_packet.isserver else self.packet_number_client
            before = tab[sp]
            if before is None:
                before = 0          # "nothing processed yet", however the table spells it
            r = o_p(self, quic_packet)
            rec.append(["q_pn", int(self.client_port), bool(quic_packet.isserver), str(sp[0].name), int(before),
                        bytes(quic_packet.packet_num).hex(), bytes(r).hex(), float(quic_packet.ts)])
            return r
        Q.QuicSession.get_full_packet_number = pn
        o_e = Q.QuicSession.check_key_epoch

        def ce(self, key_phase_bit, isserver):
            before = (self.epoch_client, self.epoch_server)
            r = o_e(self, key_phase_bit, isserver)
            if (self.epoch_client, self.epoch_server) != before:
                # the key material the session holds after it has moved to another key generation
                rec.append(["q_epoch", int(self.client_port), int(self.epoch_client), int(self.epoch_server), hexd(self.keys)])
            return r
        Q.QuicSession.check_key_epoch = ce
        o_f = Q.parse_frames

        def pf(payload, src_packet):
            fr = o_f(payload, src_packet)
            out = []
            for f in fr:
                d = {"t": f.frame_type if isinstance(f.frame_type, int) else -1, "n": type(f).__name__,
                     "len": f.length}
                for a in ("stream_id", "offset", "fin"):
                    if hasattr(f, a):
                        d[a] = getattr(f, a)
                if hasattr(f, "stream_data") and f.stream_data is not None:
                    d["data"] = bytes(f.stream_data).hex()
                if hasattr(f, "crypto"):
                    d["data"] = bytes(f.crypto).hex()
                if hasattr(f, "connection_id"):
                    d["cid"] = bytes(f.connection_id).hex()
                out.append(d)
            rec.append(["q_frames", bool(src_packet.isserver), float(src_packet.ts), str(src_packet.packet_type.name),
                        out])
            return fr
        Q.parse_frames = pf


def _cover_install(rec):
    """line coverage of tlexport/*.py for a sample of runs (evidence: which real code the simulation reached)"""
    seen = set()
    marker = os.sep + "tlexport" + os.sep

    def local(frame, event, arg):
        if event == "line":
            seen.add((frame.f_code.co_filename, frame.f_lineno))
        return local

    def tracer(frame, event, arg):
        fn = frame.f_code.co_filename
        if marker in fn and "site-packages" not in fn:
            return local
        return None
    sys.settrace(tracer)
    rec.append(["cover", seen])


def _preset(preset):
    """C16: randomised initial state for packet-number spaces (applied to every new QuicSession)"""
    import tlexport.quic.quic_session as Q
    from tlexport.quic.quic_packet import QuicPacketType as PT
    o = Q.QuicSession.set_packet_number_spaces

    def sps(self):
        o(self)
        mine = preset.get(str(getattr(self, "client_port", "")), {})
        for side, tab in (("c", self.packet_number_client), ("s", self.packet_number_server)):
            for name, val in mine.get(side, {}).items():
                for k in tab:
                    if k[0].name == name:
                        tab[k] = int(val)
    Q.QuicSession.set_packet_number_spaces = sps
    _ = PT


def _classify(tb_list, exc):
    where = "?"
    for fs in reversed(tb_list):
        fn = fs.filename.replace("\\", "/")
        if "/tlexport/" in fn:
            where = "tlexport/" + fn.split("/tlexport/")[-1] + ":" + fs.name
            break
    return type(exc).__name__, where


def _child(req, main_mod):
    os.setsid() if req.get("setsid") else None
    cpu = int(req.get("cpu", 60))
    resource.setrlimit(resource.RLIMIT_CPU, (cpu, cpu + 5))
    resource.setrlimit(resource.RLIMIT_CORE, (0, 0))
    rundir = req["dir"]
    out = {"runs": []}
    probes = []
    try:
        if req.get("probes"):
            _probe_install([k for k in req["probes"] if k != "cover"], probes)
            if "cover" in req["probes"]:
                _cover_install(probes)
        if req.get("pn_preset"):
            _preset(req["pn_preset"])
    except Exception:
        out["harness_error"] = traceback.format_exc()
    fd_out = os.open(os.path.join(rundir, "stdout.txt"), os.O_WRONLY | os.O_CREAT | os.O_APPEND, 0o644)
    os.dup2(fd_out, 1)
    os.dup2(fd_out, 2)
    for k in list(os.environ):
        if k not in ("PATH", "PYTHONHASHSEED"):
            del os.environ[k]
    for k, v in (req.get("env") or {}).items():
        os.environ[k] = v
    for run in req["runs"]:
        r = {"exit": None, "exc": None}
        try:
            os.chdir(run.get("cwd", rundir))
            sys.argv = ["tlexport"] + list(run["argv"])
            try:
                main_mod.run()
                r["exit"] = 0
            except SystemExit as e:
                c = e.code
                r["exit"] = 0 if c is None else (c if isinstance(c, int) else 1)
                r["sysexit"] = True
            except BaseException as e:  # noqa
                et, where = _classify(traceback.extract_tb(e.__traceback__), e)
                r["exit"] = 1
                r["exc"] = {"type": et, "where": where, "msg": str(e)[:300],
                            "tb": traceback.format_exc()[-3000:]}
        finally:
            sys.stdout.flush()
            sys.stderr.flush()
        out["runs"].append(r)
    sys.settrace(None)
    for p in probes:
        if p[0] == "cover":
            p[1] = sorted("%s:%d" % (fn.split(os.sep + "tlexport" + os.sep)[-1], ln) for fn, ln in p[1])
    if probes:
        out["probes"] = probes
    with open(os.path.join(rundir, "status.json"), "w") as f:
        json.dump(out, f)
    os._exit(0)


def main():
    repo = os.environ.get("VERIF_REPO", "/repo")
    sys.path.insert(0, repo)
    import warnings
    warnings.simplefilter("ignore")
    import tlexport.main as M
    assert os.path.realpath(M.__file__).startswith(os.path.realpath(repo)), (M.__file__, repo)
    sys.stdout.write(json.dumps({"ready": True, "file": M.__file__, "hashseed": os.environ.get("PYTHONHASHSEED")}) + "\n")
    sys.stdout.flush()
    ctl_out = os.dup(1)
    ctl = os.fdopen(ctl_out, "w")
    for line in sys.stdin:
        line = line.strip()
        if not line:
            continue
        req = json.loads(line)
        if req.get("quit"):
            break
        t0 = time.time()
        pid = os.fork()
        if pid == 0:
            try:
                _child(req, M)
            except BaseException:
                try:
                    with open(os.path.join(req["dir"], "status.json"), "w") as f:
                        json.dump({"harness_error": traceback.format_exc()}, f)
                finally:
                    os._exit(3)
        wall = float(req.get("wall", 300))
        status = None
        while True:
            p, st = os.waitpid(pid, os.WNOHANG)
            if p == pid:
                status = st
                break
            if time.time() - t0 > wall:
                os.kill(pid, signal.SIGKILL)
                os.waitpid(pid, 0)
                status = "wall"
                break
            time.sleep(0.0005 if time.time() - t0 < 0.2 else 0.01)
        rep = {"wall_s": time.time() - t0}
        if status == "wall":
            rep["wall_timeout"] = True
        else:
            if os.WIFSIGNALED(status):
                rep["signal"] = os.WTERMSIG(status)
            else:
                rep["child_exit"] = os.WEXITSTATUS(status)
        ctl.write(json.dumps(rep) + "\n")
        ctl.flush()


if __name__ == "__main__":
    main()
