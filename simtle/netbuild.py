"""Link/network/transport frame builders with independently computed checksums (RFC 1071).

struct only; no dpkt, no scapy, no tlexport.
"""
import struct


def csum16(data: bytes) -> int:
    """RFC 1071 one's-complement sum of 16-bit words, folded, complemented."""
    if len(data) & 1:
        data = data + b"\x00"
    s = 0
    for (w,) in struct.iter_unpack(">H", data):
        s += w
    while s >> 16:
        s = (s & 0xFFFF) + (s >> 16)
    return (~s) & 0xFFFF


def raw_sum16(data: bytes) -> int:
    """unfolded sum of 16-bit words (for steering tests)"""
    if len(data) & 1:
        data = data + b"\x00"
    s = 0
    for (w,) in struct.iter_unpack(">H", data):
        s += w
    return s


def pseudo(ipv6, src, dst, proto, length):
    if ipv6:
        return src + dst + struct.pack(">I", length) + b"\x00\x00\x00" + bytes([proto])
    return src + dst + b"\x00" + bytes([proto]) + struct.pack(">H", length)


def tcp_segment(ipv6, src, dst, sport, dport, seq, ack, flags, payload=b"", window=65535, options=b"", urg=0,
                bad_csum=None):
    assert len(options) % 4 == 0
    off = 5 + len(options) // 4
    hdr = struct.pack(">HHIIBBHHH", sport, dport, seq & 0xFFFFFFFF, ack & 0xFFFFFFFF, off << 4, flags, window, 0, urg)
    seg = hdr + options + payload
    c = csum16(pseudo(ipv6, src, dst, 6, len(seg)) + seg)
    if bad_csum is not None:
        c = bad_csum(c)
    return seg[:16] + struct.pack(">H", c) + seg[18:]


def udp_datagram(ipv6, src, dst, sport, dport, payload, bad_csum=None):
    ln = 8 + len(payload)
    hdr = struct.pack(">HHHH", sport, dport, ln, 0)
    c = csum16(pseudo(ipv6, src, dst, 17, ln) + hdr + payload)
    if c == 0:
        c = 0xFFFF
    if bad_csum is not None:
        c = bad_csum(c)
    return struct.pack(">HHHH", sport, dport, ln, c) + payload


def ipv4(src, dst, proto, payload, ident=0, ttl=64, tos=0, flags_frag=0x4000):
    tot = 20 + len(payload)
    hdr = struct.pack(">BBHHHBBH4s4s", 0x45, tos, tot, ident & 0xFFFF, flags_frag, ttl, proto, 0, src, dst)
    c = csum16(hdr)
    return hdr[:10] + struct.pack(">H", c) + hdr[12:] + payload


def ipv6(src, dst, nxt, payload, hlim=64, tc=0, flow=0):
    first = (6 << 28) | ((tc & 0xFF) << 20) | (flow & 0xFFFFF)
    return struct.pack(">IHBB16s16s", first, len(payload), nxt, hlim, src, dst) + payload


def ether(dst_mac, src_mac, ethertype, payload, pad_to=0):
    fr = dst_mac + src_mac + struct.pack(">H", ethertype) + payload
    if len(fr) < pad_to:
        fr += b"\x00" * (pad_to - len(fr))
    return fr


def frame_tcp(ep_src, ep_dst, ipv6_flag, seq, ack, flags, payload=b"", ident=0, options=b"", pad_to=0, window=65535,
              bad_csum=None):
    """ep = dict(mac=bytes6, ip=bytes4/16, port=int)"""
    seg = tcp_segment(ipv6_flag, ep_src["ip"], ep_dst["ip"], ep_src["port"], ep_dst["port"], seq, ack, flags, payload,
                      window=window, options=options, bad_csum=bad_csum)
    if ipv6_flag:
        ip = ipv6(ep_src["ip"], ep_dst["ip"], 6, seg, flow=ident & 0xFFFFF)
        et = 0x86DD
    else:
        ip = ipv4(ep_src["ip"], ep_dst["ip"], 6, seg, ident=ident)
        et = 0x0800
    return ether(ep_dst["mac"], ep_src["mac"], et, ip, pad_to=pad_to)


def frame_udp(ep_src, ep_dst, ipv6_flag, payload, ident=0, pad_to=0, bad_csum=None):
    dg = udp_datagram(ipv6_flag, ep_src["ip"], ep_dst["ip"], ep_src["port"], ep_dst["port"], payload,
                      bad_csum=bad_csum)
    if ipv6_flag:
        ip = ipv6(ep_src["ip"], ep_dst["ip"], 17, dg, flow=ident & 0xFFFFF)
        et = 0x86DD
    else:
        ip = ipv4(ep_src["ip"], ep_dst["ip"], 17, dg, ident=ident)
        et = 0x0800
    return ether(ep_dst["mac"], ep_src["mac"], et, ip, pad_to=pad_to)
