"""Reference TLS model written from the RFCs (6101, 2246, 4346, 5246, 7366, 5288, 6655, 7905, 8446).

Shares no code with tlexport.  Uses `cryptography` only for raw primitives.
"""
import hashlib
import hmac as _hmac
import struct
import warnings

with warnings.catch_warnings():
    warnings.simplefilter("ignore")
    from cryptography.hazmat.primitives.ciphers import Cipher, algorithms, modes
    from cryptography.hazmat.primitives.ciphers.aead import AESGCM, AESCCM, ChaCha20Poly1305
    try:
        from cryptography.hazmat.decrepit.ciphers import algorithms as old_alg
    except Exception:  # pragma: no cover
        old_alg = algorithms

SSL30, TLS10, TLS11, TLS12, TLS13 = 0x0300, 0x0301, 0x0302, 0x0303, 0x0304
VERSIONS = (SSL30, TLS10, TLS11, TLS12, TLS13)

# ---------------------------------------------------------------------------------------------
# IANA TLS cipher suite registry (subset relevant here), written out independently, by family.
# ---------------------------------------------------------------------------------------------


def _registry():
    R = {}

    def add(code, name):
        assert code not in R
        R[code] = name

    add(0x0004, "TLS_RSA_WITH_RC4_128_MD5")
    add(0x0005, "TLS_RSA_WITH_RC4_128_SHA")
    add(0x0007, "TLS_RSA_WITH_IDEA_CBC_SHA")
    add(0x000A, "TLS_RSA_WITH_3DES_EDE_CBC_SHA")
    add(0x000D, "TLS_DH_DSS_WITH_3DES_EDE_CBC_SHA")
    add(0x0010, "TLS_DH_RSA_WITH_3DES_EDE_CBC_SHA")
    add(0x0013, "TLS_DHE_DSS_WITH_3DES_EDE_CBC_SHA")
    add(0x0016, "TLS_DHE_RSA_WITH_3DES_EDE_CBC_SHA")
    add(0x0018, "TLS_DH_anon_WITH_RC4_128_MD5")
    add(0x001B, "TLS_DH_anon_WITH_3DES_EDE_CBC_SHA")
    add(0x001F, "TLS_KRB5_WITH_3DES_EDE_CBC_SHA")
    add(0x0020, "TLS_KRB5_WITH_RC4_128_SHA")
    add(0x0021, "TLS_KRB5_WITH_IDEA_CBC_SHA")
    add(0x0023, "TLS_KRB5_WITH_3DES_EDE_CBC_MD5")
    add(0x0024, "TLS_KRB5_WITH_RC4_128_MD5")
    add(0x0025, "TLS_KRB5_WITH_IDEA_CBC_MD5")
    kx6 = ["RSA", "DH_DSS", "DH_RSA", "DHE_DSS", "DHE_RSA", "DH_anon"]
    for i, kx in enumerate(kx6):
        add(0x002F + i, "TLS_%s_WITH_AES_128_CBC_SHA" % kx)
        add(0x0035 + i, "TLS_%s_WITH_AES_256_CBC_SHA" % kx)
        add(0x0041 + i, "TLS_%s_WITH_CAMELLIA_128_CBC_SHA" % kx)
        add(0x0084 + i, "TLS_%s_WITH_CAMELLIA_256_CBC_SHA" % kx)
        add(0x00BA + i, "TLS_%s_WITH_CAMELLIA_128_CBC_SHA256" % kx)
        add(0x00C0 + i, "TLS_%s_WITH_CAMELLIA_256_CBC_SHA256" % kx)
    add(0x003C, "TLS_RSA_WITH_AES_128_CBC_SHA256")
    add(0x003D, "TLS_RSA_WITH_AES_256_CBC_SHA256")
    add(0x003E, "TLS_DH_DSS_WITH_AES_128_CBC_SHA256")
    add(0x003F, "TLS_DH_RSA_WITH_AES_128_CBC_SHA256")
    add(0x0040, "TLS_DHE_DSS_WITH_AES_128_CBC_SHA256")
    add(0x0067, "TLS_DHE_RSA_WITH_AES_128_CBC_SHA256")
    add(0x0068, "TLS_DH_DSS_WITH_AES_256_CBC_SHA256")
    add(0x0069, "TLS_DH_RSA_WITH_AES_256_CBC_SHA256")
    add(0x006A, "TLS_DHE_DSS_WITH_AES_256_CBC_SHA256")
    add(0x006B, "TLS_DHE_RSA_WITH_AES_256_CBC_SHA256")
    add(0x006C, "TLS_DH_anon_WITH_AES_128_CBC_SHA256")
    add(0x006D, "TLS_DH_anon_WITH_AES_256_CBC_SHA256")
    for i, kx in enumerate(["PSK", "DHE_PSK", "RSA_PSK"]):
        b = 0x008A + 4 * i
        add(b + 0, "TLS_%s_WITH_RC4_128_SHA" % kx)
        add(b + 1, "TLS_%s_WITH_3DES_EDE_CBC_SHA" % kx)
        add(b + 2, "TLS_%s_WITH_AES_128_CBC_SHA" % kx)
        add(b + 3, "TLS_%s_WITH_AES_256_CBC_SHA" % kx)
    for i, kx in enumerate(["RSA", "DHE_RSA", "DH_RSA", "DHE_DSS", "DH_DSS", "DH_anon", "PSK", "DHE_PSK", "RSA_PSK"]):
        add(0x009C + 2 * i, "TLS_%s_WITH_AES_128_GCM_SHA256" % kx)
        add(0x009D + 2 * i, "TLS_%s_WITH_AES_256_GCM_SHA384" % kx)
    add(0x00AE, "TLS_PSK_WITH_AES_128_CBC_SHA256")
    add(0x00AF, "TLS_PSK_WITH_AES_256_CBC_SHA384")
    add(0x00B2, "TLS_DHE_PSK_WITH_AES_128_CBC_SHA256")
    add(0x00B3, "TLS_DHE_PSK_WITH_AES_256_CBC_SHA384")
    add(0x00B6, "TLS_RSA_PSK_WITH_AES_128_CBC_SHA256")
    add(0x00B7, "TLS_RSA_PSK_WITH_AES_256_CBC_SHA384")
    add(0x1301, "TLS_AES_128_GCM_SHA256")
    add(0x1302, "TLS_AES_256_GCM_SHA384")
    add(0x1303, "TLS_CHACHA20_POLY1305_SHA256")
    add(0x1304, "TLS_AES_128_CCM_SHA256")
    add(0x1305, "TLS_AES_128_CCM_8_SHA256")
    for i, kx in enumerate(["ECDH_ECDSA", "ECDHE_ECDSA", "ECDH_RSA", "ECDHE_RSA", "ECDH_anon"]):
        b = 0xC001 + 5 * i
        add(b + 1, "TLS_%s_WITH_RC4_128_SHA" % kx)
        add(b + 2, "TLS_%s_WITH_3DES_EDE_CBC_SHA" % kx)
        add(b + 3, "TLS_%s_WITH_AES_128_CBC_SHA" % kx)
        add(b + 4, "TLS_%s_WITH_AES_256_CBC_SHA" % kx)
    for i, kx in enumerate(["SRP_SHA", "SRP_SHA_RSA", "SRP_SHA_DSS"]):
        add(0xC01A + i, "TLS_%s_WITH_3DES_EDE_CBC_SHA" % kx)
        add(0xC01D + i, "TLS_%s_WITH_AES_128_CBC_SHA" % kx)
        add(0xC020 + i, "TLS_%s_WITH_AES_256_CBC_SHA" % kx)
    for i, kx in enumerate(["ECDHE_ECDSA", "ECDH_ECDSA", "ECDHE_RSA", "ECDH_RSA"]):
        add(0xC023 + 2 * i, "TLS_%s_WITH_AES_128_CBC_SHA256" % kx)
        add(0xC024 + 2 * i, "TLS_%s_WITH_AES_256_CBC_SHA384" % kx)
        add(0xC02B + 2 * i, "TLS_%s_WITH_AES_128_GCM_SHA256" % kx)
        add(0xC02C + 2 * i, "TLS_%s_WITH_AES_256_GCM_SHA384" % kx)
        add(0xC072 + 2 * i, "TLS_%s_WITH_CAMELLIA_128_CBC_SHA256" % kx)
        add(0xC073 + 2 * i, "TLS_%s_WITH_CAMELLIA_256_CBC_SHA384" % kx)
    add(0xC033, "TLS_ECDHE_PSK_WITH_RC4_128_SHA")
    add(0xC034, "TLS_ECDHE_PSK_WITH_3DES_EDE_CBC_SHA")
    add(0xC035, "TLS_ECDHE_PSK_WITH_AES_128_CBC_SHA")
    add(0xC036, "TLS_ECDHE_PSK_WITH_AES_256_CBC_SHA")
    add(0xC037, "TLS_ECDHE_PSK_WITH_AES_128_CBC_SHA256")
    add(0xC038, "TLS_ECDHE_PSK_WITH_AES_256_CBC_SHA384")
    for i, kx in enumerate(["PSK", "DHE_PSK", "RSA_PSK", "ECDHE_PSK"]):
        add(0xC094 + 2 * i, "TLS_%s_WITH_CAMELLIA_128_CBC_SHA256" % kx)
        add(0xC095 + 2 * i, "TLS_%s_WITH_CAMELLIA_256_CBC_SHA384" % kx)
    add(0xC09C, "TLS_RSA_WITH_AES_128_CCM")
    add(0xC09D, "TLS_RSA_WITH_AES_256_CCM")
    add(0xC09E, "TLS_DHE_RSA_WITH_AES_128_CCM")
    add(0xC09F, "TLS_DHE_RSA_WITH_AES_256_CCM")
    add(0xC0A0, "TLS_RSA_WITH_AES_128_CCM_8")
    add(0xC0A1, "TLS_RSA_WITH_AES_256_CCM_8")
    add(0xC0A2, "TLS_DHE_RSA_WITH_AES_128_CCM_8")
    add(0xC0A3, "TLS_DHE_RSA_WITH_AES_256_CCM_8")
    add(0xC0A4, "TLS_PSK_WITH_AES_128_CCM")
    add(0xC0A5, "TLS_PSK_WITH_AES_256_CCM")
    add(0xC0A6, "TLS_DHE_PSK_WITH_AES_128_CCM")
    add(0xC0A7, "TLS_DHE_PSK_WITH_AES_256_CCM")
    add(0xC0A8, "TLS_PSK_WITH_AES_128_CCM_8")
    add(0xC0A9, "TLS_PSK_WITH_AES_256_CCM_8")
    add(0xC0AA, "TLS_PSK_DHE_WITH_AES_128_CCM_8")
    add(0xC0AB, "TLS_PSK_DHE_WITH_AES_256_CCM_8")
    add(0xC0AC, "TLS_ECDHE_ECDSA_WITH_AES_128_CCM")
    add(0xC0AD, "TLS_ECDHE_ECDSA_WITH_AES_256_CCM")
    add(0xC0AE, "TLS_ECDHE_ECDSA_WITH_AES_128_CCM_8")
    add(0xC0AF, "TLS_ECDHE_ECDSA_WITH_AES_256_CCM_8")
    add(0xC0B0, "TLS_ECCPWD_WITH_AES_128_GCM_SHA256")
    add(0xC0B1, "TLS_ECCPWD_WITH_AES_256_GCM_SHA384")
    add(0xC0B2, "TLS_ECCPWD_WITH_AES_128_CCM_SHA256")
    add(0xC0B3, "TLS_ECCPWD_WITH_AES_256_CCM_SHA384")
    add(0xCCA8, "TLS_ECDHE_RSA_WITH_CHACHA20_POLY1305_SHA256")
    add(0xCCA9, "TLS_ECDHE_ECDSA_WITH_CHACHA20_POLY1305_SHA256")
    add(0xCCAA, "TLS_DHE_RSA_WITH_CHACHA20_POLY1305_SHA256")
    add(0xCCAB, "TLS_PSK_WITH_CHACHA20_POLY1305_SHA256")
    add(0xCCAC, "TLS_ECDHE_PSK_WITH_CHACHA20_POLY1305_SHA256")
    add(0xCCAD, "TLS_DHE_PSK_WITH_CHACHA20_POLY1305_SHA256")
    add(0xCCAE, "TLS_RSA_PSK_WITH_CHACHA20_POLY1305_SHA256")
    add(0xD001, "TLS_ECDHE_PSK_WITH_AES_128_GCM_SHA256")
    add(0xD002, "TLS_ECDHE_PSK_WITH_AES_256_GCM_SHA384")
    add(0xD003, "TLS_ECDHE_PSK_WITH_AES_128_CCM_8_SHA256")
    add(0xD005, "TLS_ECDHE_PSK_WITH_AES_128_CCM_SHA256")
    return R


REGISTRY = _registry()


class Suite:
    __slots__ = ("code", "name", "kx", "cipher", "mode", "keylen", "block", "mac", "maclen", "prf", "fixed_iv",
                 "taglen", "tls13")

    def __repr__(self):
        return "<%04X %s>" % (self.code, self.name)


_HLEN = {"md5": 16, "sha1": 20, "sha256": 32, "sha384": 48}


def parse_suite(code):
    name = REGISTRY[code]
    s = Suite()
    s.code, s.name = code, name
    s.tls13 = "_WITH_" not in name
    if s.tls13:
        s.kx = None
        rest = name[4:]
    else:
        kx, rest = name[4:].split("_WITH_")
        s.kx = kx
    toks = rest.split("_")
    # hash suffix
    last = toks[-1]
    hashname = None
    if last in ("SHA", "SHA256", "SHA384", "MD5"):
        hashname = {"SHA": "sha1", "SHA256": "sha256", "SHA384": "sha384", "MD5": "md5"}[last]
        toks = toks[:-1]
    body = "_".join(toks)
    s.taglen = 16
    if body == "RC4_128":
        s.cipher, s.mode, s.keylen, s.block = "RC4", "stream", 16, 0
    elif body == "3DES_EDE_CBC":
        s.cipher, s.mode, s.keylen, s.block = "3DES", "cbc", 24, 8
    elif body == "IDEA_CBC":
        s.cipher, s.mode, s.keylen, s.block = "IDEA", "cbc", 16, 8
    elif body in ("AES_128_CBC", "AES_256_CBC"):
        s.cipher, s.mode, s.keylen, s.block = "AES", "cbc", int(toks[1]) // 8, 16
    elif body in ("CAMELLIA_128_CBC", "CAMELLIA_256_CBC"):
        s.cipher, s.mode, s.keylen, s.block = "CAMELLIA", "cbc", int(toks[1]) // 8, 16
    elif body in ("AES_128_GCM", "AES_256_GCM"):
        s.cipher, s.mode, s.keylen, s.block = "AES", "gcm", int(toks[1]) // 8, 16
    elif body in ("AES_128_CCM", "AES_256_CCM"):
        s.cipher, s.mode, s.keylen, s.block = "AES", "ccm", int(toks[1]) // 8, 16
    elif body in ("AES_128_CCM_8", "AES_256_CCM_8"):
        s.cipher, s.mode, s.keylen, s.block = "AES", "ccm", int(toks[1]) // 8, 16
        s.taglen = 8
    elif body == "CHACHA20_POLY1305":
        s.cipher, s.mode, s.keylen, s.block = "CHACHA20", "chacha", 32, 0
    else:
        raise ValueError(name)
    aead = s.mode in ("gcm", "ccm", "chacha")
    if aead:
        s.mac, s.maclen = None, 0
        s.prf = hashname if hashname in ("sha384",) else "sha256"
        s.fixed_iv = 12 if s.mode == "chacha" else 4
    else:
        s.mac, s.maclen = hashname, _HLEN[hashname]
        s.prf = "sha384" if hashname == "sha384" else "sha256"
        s.fixed_iv = s.block  # only meaningful for SSL3.0 / TLS1.0 CBC
    return s


SUITES = {c: parse_suite(c) for c in REGISTRY}


def valid_versions(s: Suite):
    """conservative rule from the defining RFCs (see DESIGN 2.3)"""
    if s.tls13:
        return (TLS13,)
    aead = s.mac is None
    if aead or s.mac in ("sha256", "sha384"):
        return (TLS12,)
    vs = [TLS10, TLS11]
    if s.cipher != "IDEA":
        vs.append(TLS12)
    if s.kx in ("RSA", "DH_DSS", "DH_RSA", "DHE_DSS", "DHE_RSA", "DH_anon"):
        vs.insert(0, SSL30)
    return tuple(vs)


# ---------------------------------------------------------------------------------------------
# key schedules
# ---------------------------------------------------------------------------------------------

def _h(name, data):
    return hashlib.new(name, data).digest()


def _hmac_(name, key, data):
    return _hmac.new(key, data, name).digest()


def ssl3_prf(secret, seed, n):
    out = b""
    i = 0
    while len(out) < n:
        i += 1
        label = bytes([ord("A") + i - 1]) * i
        out += _h("md5", secret + _h("sha1", label + secret + seed))
    return out[:n]


def p_hash(name, secret, seed, n):
    out = b""
    a = seed
    while len(out) < n:
        a = _hmac_(name, secret, a)
        out += _hmac_(name, secret, a + seed)
    return out[:n]


def tls10_prf(secret, label, seed, n):
    half = (len(secret) + 1) // 2
    s1, s2 = secret[:half], secret[len(secret) - half:]
    a = p_hash("md5", s1, label + seed, n)
    b = p_hash("sha1", s2, label + seed, n)
    return bytes(x ^ y for x, y in zip(a, b))


def tls12_prf(hashname, secret, label, seed, n):
    return p_hash(hashname, secret, label + seed, n)


def hkdf_expand(hashname, prk, info, n):
    out = b""
    t = b""
    i = 0
    while len(out) < n:
        i += 1
        t = _hmac_(hashname, prk, t + info + bytes([i]))
        out += t
    return out[:n]


def hkdf_extract(hashname, salt, ikm):
    return _hmac_(hashname, salt, ikm)


def hkdf_expand_label(hashname, secret, label, context, n):
    full = b"tls13 " + label
    info = struct.pack(">H", n) + bytes([len(full)]) + full + bytes([len(context)]) + context
    return hkdf_expand(hashname, secret, info, n)


def key_block_legacy(version, suite: Suite, master, client_random, server_random):
    """-> dict cmac smac ckey skey civ siv for SSL3.0 .. TLS1.2"""
    if suite.mode == "cbc":
        ivlen = suite.block if version in (SSL30, TLS10) else 0
    elif suite.mode == "stream":
        ivlen = 0
    else:
        ivlen = suite.fixed_iv
    n = 2 * suite.maclen + 2 * suite.keylen + 2 * ivlen
    seed = server_random + client_random
    if version == SSL30:
        kb = ssl3_prf(master, seed, n)
    elif version in (TLS10, TLS11):
        kb = tls10_prf(master, b"key expansion", seed, n)
    else:
        kb = tls12_prf(suite.prf, master, b"key expansion", seed, n)
    o = 0
    out = {}
    for nm, ln in (("cmac", suite.maclen), ("smac", suite.maclen), ("ckey", suite.keylen), ("skey", suite.keylen),
                   ("civ", ivlen), ("siv", ivlen)):
        out[nm] = kb[o:o + ln]
        o += ln
    return out


def tls13_keys(suite: Suite, secret):
    return (hkdf_expand_label(suite.prf, secret, b"key", b"", suite.keylen),
            hkdf_expand_label(suite.prf, secret, b"iv", b"", 12))


# ---------------------------------------------------------------------------------------------
# record protection
# ---------------------------------------------------------------------------------------------

def _block_alg(suite, key):
    if suite.cipher == "AES":
        return algorithms.AES(key)
    if suite.cipher == "CAMELLIA":
        return algorithms.Camellia(key)
    if suite.cipher == "3DES":
        return old_alg.TripleDES(key)
    if suite.cipher == "IDEA":
        return old_alg.IDEA(key)
    raise ValueError(suite.cipher)


def _aead(suite, key):
    if suite.mode == "gcm":
        return AESGCM(key)
    if suite.mode == "ccm":
        return AESCCM(key, tag_length=suite.taglen)
    return ChaCha20Poly1305(key)


def _xor_seq(iv, seq):
    s = seq.to_bytes(len(iv), "big")
    return bytes(a ^ b for a, b in zip(iv, s))


def ssl3_mac(hashname, key, seq, ctype, data):
    padlen = 48 if hashname == "md5" else 40
    inner = _h(hashname, key + b"\x36" * padlen + struct.pack(">QBH", seq, ctype, len(data)) + data)
    return _h(hashname, key + b"\x5c" * padlen + inner)


class WriteState:
    """One direction's record protection state (the *sender* side).  Also offers open() = the inverse."""

    def __init__(self, version, suite: Suite, key, mac_key=b"", iv=b"", etm=False):
        self.version = version
        self.suite = suite
        self.key = key
        self.mac_key = mac_key
        self.iv = iv            # SSL3/TLS1.0 CBC: running IV; AEAD: fixed/implicit part
        self.etm = etm
        self.seq = 0
        self.rc4 = None
        self.rc4d = None
        if suite.mode == "stream":
            self.rc4 = Cipher(old_alg.ARC4(key), mode=None).encryptor()
            self.rc4d = Cipher(old_alg.ARC4(key), mode=None).decryptor()

    # -- helpers
    def _mac(self, ctype, recver, data):
        # SSL 3.0 uses its own pad1/pad2 construction (also when OpenSSL applies encrypt-then-MAC to SSL 3.0,
        # as the repository's ssl3_0_* sample captures show); TLS uses HMAC.
        if self.version == SSL30:
            return ssl3_mac(self.suite.mac, self.mac_key, self.seq, ctype, data)
        return _hmac_(self.suite.mac, self.mac_key, struct.pack(">QBHH", self.seq, ctype, recver, len(data)) + data)

    def seal(self, ctype, recver, plaintext, pad=0, explicit=None, padbytes=None):
        """-> fragment bytes as they go on the wire (without the 5-byte header).
        pad: extra padding *blocks* for CBC (TLS), number of zero bytes for TLS 1.3.
        explicit: explicit IV (CBC 1.1/1.2, one block) or explicit nonce (8 bytes) for GCM/CCM."""
        s = self.suite
        v = self.version
        if v == TLS13:
            inner = plaintext + bytes([ctype]) + b"\x00" * pad
            ln = len(inner) + s.taglen
            aad = struct.pack(">BHH", 23, 0x0303, ln)
            nonce = _xor_seq(self.iv, self.seq)
            out = _aead(s, self.key).encrypt(nonce, inner, aad)
            self.seq += 1
            return out
        if s.mode == "stream":
            mac = self._mac(ctype, recver, plaintext)
            self.seq += 1
            return self.rc4.update(plaintext + mac)
        if s.mode == "cbc":
            bs = s.block
            explicit_iv = v in (TLS11, TLS12)
            if self.etm:
                body = plaintext
            else:
                body = plaintext + self._mac(ctype, recver, plaintext)
            padlen = bs - 1 - (len(body) % bs)   # minimal: total multiple of bs incl. length byte
            if v == SSL30:
                # SSL 3.0: padding shorter than a block, arbitrary content
                pb = padbytes if padbytes is not None else b"\x00" * padlen
                pb = (pb + b"\x00" * padlen)[:padlen]
                body = body + pb + bytes([padlen])
            else:
                padlen += bs * pad
                while padlen > 255:
                    padlen -= bs
                body = body + bytes([padlen]) * (padlen + 1)
            if explicit_iv:
                iv = explicit
                assert iv is not None and len(iv) == bs
            else:
                iv = self.iv
            enc = Cipher(_block_alg(s, self.key), modes.CBC(iv)).encryptor()
            ct = enc.update(body) + enc.finalize()
            if not explicit_iv:
                self.iv = ct[-bs:]
            wire = (iv + ct) if explicit_iv else ct
            if self.etm:
                wire = wire + self._mac(ctype, recver, wire)
            self.seq += 1
            return wire
        # AEAD TLS 1.2
        aad = struct.pack(">QBHH", self.seq, ctype, recver, len(plaintext))
        if s.mode == "chacha":
            nonce = _xor_seq(self.iv, self.seq)
            out = _aead(s, self.key).encrypt(nonce, plaintext, aad)
        else:
            assert explicit is not None and len(explicit) == 8
            out = explicit + _aead(s, self.key).encrypt(self.iv + explicit, plaintext, aad)
        self.seq += 1
        return out

    def open(self, ctype, recver, frag):
        """inverse of seal (receiver side, verifies MAC/tag) -> (ctype, plaintext); used to validate the model
        against real captures."""
        s = self.suite
        v = self.version
        if v == TLS13:
            aad = struct.pack(">BHH", ctype, recver, len(frag))
            nonce = _xor_seq(self.iv, self.seq)
            inner = _aead(s, self.key).decrypt(nonce, frag, aad)
            self.seq += 1
            inner = inner.rstrip(b"\x00")
            return inner[-1], inner[:-1]
        if s.mode == "stream":
            body = self.rc4d.update(frag)
            pt, mac = body[:-s.maclen], body[-s.maclen:]
            if mac != self._mac(ctype, recver, pt):
                raise ValueError("bad record MAC (stream)")
            self.seq += 1
            return ctype, pt
        if s.mode == "cbc":
            bs = s.block
            if self.etm:
                wire, mac = frag[:-s.maclen], frag[-s.maclen:]
                if mac != self._mac(ctype, recver, wire):
                    raise ValueError("bad record MAC (etm)")
            else:
                wire = frag
            if v in (TLS11, TLS12):
                iv, ct = wire[:bs], wire[bs:]
            else:
                iv, ct = self.iv, wire
                self.iv = ct[-bs:]
            dec = Cipher(_block_alg(s, self.key), modes.CBC(iv)).decryptor()
            body = dec.update(ct) + dec.finalize()
            padlen = body[-1]
            if v != SSL30 and body[-(padlen + 1):] != bytes([padlen]) * (padlen + 1):
                raise ValueError("bad padding")
            body = body[:-(padlen + 1)]
            if self.etm:
                pt = body
            else:
                pt, mac = body[:-s.maclen], body[-s.maclen:]
                if mac != self._mac(ctype, recver, pt):
                    raise ValueError("bad record MAC (cbc)")
            self.seq += 1
            return ctype, pt
        if s.mode == "chacha":
            aad = struct.pack(">QBHH", self.seq, ctype, recver, len(frag) - 16)
            pt = _aead(s, self.key).decrypt(_xor_seq(self.iv, self.seq), frag, aad)
        else:
            explicit, ct = frag[:8], frag[8:]
            aad = struct.pack(">QBHH", self.seq, ctype, recver, len(ct) - s.taglen)
            pt = _aead(s, self.key).decrypt(self.iv + explicit, ct, aad)
        self.seq += 1
        return ctype, pt


def record(ctype, recver, frag):
    assert len(frag) <= 0xFFFF
    return struct.pack(">BHH", ctype, recver, len(frag)) + frag


# ---------------------------------------------------------------------------------------------
# handshake messages
# ---------------------------------------------------------------------------------------------

def hs_msg(mtype, body):
    return bytes([mtype]) + len(body).to_bytes(3, "big") + body


def ext(etype, body):
    return struct.pack(">HH", etype, len(body)) + body


def client_hello(legacy_version, random, session_id, suites, extensions=None, compression=b"\x00"):
    body = struct.pack(">H", legacy_version) + random + bytes([len(session_id)]) + session_id
    body += struct.pack(">H", 2 * len(suites)) + b"".join(struct.pack(">H", c) for c in suites)
    body += bytes([len(compression)]) + compression
    if extensions is not None:
        e = b"".join(extensions)
        body += struct.pack(">H", len(e)) + e
    return hs_msg(1, body)


def server_hello(version, random, session_id, suite, extensions=None, compression=0):
    body = struct.pack(">H", version) + random + bytes([len(session_id)]) + session_id
    body += struct.pack(">H", suite) + bytes([compression])
    if extensions is not None:
        e = b"".join(extensions)
        body += struct.pack(">H", len(e)) + e
    return hs_msg(2, body)
