"""Simulated QUIC endpoints / arbitrary UDP senders -> datagram units for the world simulation."""


def build_units(conn):
    if conn["proto"] == "udp":
        dgrams = [bytes.fromhex(h) for _, h in conn["dgrams"]]
        units = []
        for i, (d, _) in enumerate(conn["dgrams"]):
            fl = {"c": [], "s": []}
            fl[d].append({"dg": i})
            units.append(fl)
        return units, {"dgrams": dgrams, "keylog": [], "keys": {"client_random": ""},
                       "truth": {"expected": [], "noise": True}}
    from . import quicpeer
    return quicpeer.build_units(conn)


def reduction_candidates(conn):
    from . import quicpeer
    return quicpeer.reduction_candidates(conn)
