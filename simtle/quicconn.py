"""Simulated QUIC endpoints / arbitrary UDP senders -> datagram units for the world simulation."""


def build_units(conn):
    if conn["proto"] == "udp":
        dgrams = [bytes.fromhex(h) for _, h in conn["dgrams"]]
        units = []
        if conn.get("src_per_dgram"):
            # a burst: all datagrams leave back to back
            return [{"c": [{"dg": i} for i in range(len(dgrams))], "s": []}], {
                "dgrams": dgrams, "keylog": [], "keys": {"client_random": ""}, "truth": {"expected": [], "noise": True}}
        for i, (d, _) in enumerate(conn["dgrams"]):
            fl = {"c": [], "s": []}
            fl[d].append({"dg": i})
            units.append(fl)
        return units, {"dgrams": dgrams, "keylog": [], "keys": {"client_random": ""},
                       "truth": {"expected": [], "noise": True}}
    from . import quicpeer
    return quicpeer.build_units(conn)


def reduction_candidates(conn):
    from . import quicpeer
    return quicpeer.reduction_candidates(conn)
