"""C13 - metadata export (-a) only adds packets; application data is unchanged."""
import copy

from ..rng import Rng
from .. import gen, world, tlsref as T
from ..harness import Outcome
from .base import Prop, run_export, failure_class, failure_detail, Flows, describe_conn


def subsequence(small, big):
    j = 0
    for x in small:
        while j < len(big) and big[j] != x:
            j += 1
        if j >= len(big):
            return False
        j += 1
    return True


def record_as_own_packets(rec, seq):
    """rec bytes appear as the concatenation of one or more CONSECUTIVE payloads of seq (list of bytes)"""
    n = len(seq)
    for i in range(n):
        if not seq[i] or not rec.startswith(seq[i]):
            continue
        acc = b""
        for j in range(i, n):
            acc += seq[j]
            if acc == rec:
                return True
            if not rec.startswith(acc):
                break
    return False


class C13(Prop):
    id = "C13"
    level = "exploration"
    rule = ("differential: every simulated world (TLS as in C01, QUIC as in C02) is exported without and with -a; TLS: the "
            "sequence of non-empty (direction, payload) data packets without -a is a subsequence of the one with -a and the "
            "ClientHello / ServerHello records appear verbatim as packets of their own; QUIC: every stream-data piece of the "
            "run without -a occurs in the same order and direction inside the -a datagrams; one evaluation = one pair; "
            "non-trivial = the run without -a exported data and -a changed the output; distinct = spec digests")
    reach = ["tls", "quic", "a_added_packets", "hello_spans_packets", "multi_conn", "alert_followed_by_data",
             "encrypted_hello_request_mid_connection", "damaged_application_record",
             "coarse_capture_clock"]

    def plan(self, tier):
        p = super().plan(tier)
        if tier == "quick":
            p["count"] = 900
        return p

    def gen(self, seed, idx, tier):
        R = Rng(seed, "C13")
        cfg = {"records_max": 8, "len_max": 3000, "isn_wrap": False, "seg_pct": 70, "quic_pct": 35,
               "net": {"delay": 40, "lost_before": 25, "dup": 20, "dup_rto": 10, "_D": 3}, "net_pct": 50,
               "quic": {"net": {"delay": 50, "dup": 30, "_D": 3}}}
        spec = gen.gen_mixed_world(R.fork("world"), cfg)
        spec["prop"] = "C13"
        for c in spec["conns"]:
            if c["proto"] == "tls" and len(c.get("recs", [])) >= 2 and R.chance(15):
                c["alert_mid"] = R.range(1, len(c["recs"]) - 1)
                c["close"] = False
        CK = R.fork("clock")
        if CK.chance(25):
            # a coarse capture clock: consecutive datagrams (also of both directions) share a timestamp
            spec["tap"]["res_us"] = CK.choice([1000, 1000, 10000])
            for c in spec["conns"]:
                if c["proto"] == "quic":
                    c["unique_ts"] = "per_direction"
            spec["coarse_clock"] = True
        D = R.fork("damage")
        tl = [c for c in spec["conns"] if c["proto"] == "tls" and c["ver"] != T.TLS13]
        if tl and D.chance(20):
            # one application record of a TLS <= 1.2 connection is damaged on the wire (a bit of its ciphertext flipped,
            # checksum recomputed): whatever the plain export makes of it, -a must not add it as "metadata"
            v = D.choice(tl)
            ex = world.expand(spec)
            t = [x for x in ex["truth"]["conns"] if x["id"] == v["id"]][0]
            apps = [r for r in t["records"] if r["kind"] == "app" and r["hi"] - r["lo"] > 8]
            if apps:
                r = D.choice(apps)
                pos = D.range(r["lo"] + 5, r["hi"] - 1)
                fr = [f for f in t["frames"] if f["d"] == r["d"] and f["lo"] <= pos < f["hi"] and not f["dup"]]
                if fr:
                    spec["faults"] = [{"k": "flip", "i": fr[0]["i"], "off": pos - fr[0]["lo"], "bit": D.below(8), "fix": True}]
                    spec["damaged_app_record"] = True
        return spec

    def check(self, lane, spec):
        out = Outcome()
        s0 = copy.deepcopy(spec)
        s0.setdefault("cli", {}).pop("a", None)
        s1 = copy.deepcopy(spec)
        s1.setdefault("cli", {})["a"] = True
        ex0 = world.expand(s0)
        ex1 = world.expand(s1)
        out.sim_time_ns = ex0["stats"]["sim_time_ns"]
        r0 = run_export(lane, s0, ex0, out)
        r1 = run_export(lane, s1, ex1, out)
        out.exports -= 1
        out.sample = {"seed": spec.get("seed"), "conns": [describe_conn(c) for c in spec["conns"]][:3]}
        if failure_class(r0):
            out.count("plain_run_failed")
            return out
        fc = failure_class(r1)
        if fc:
            out.violate("run-with-a-does-not-fail", fc, failure_detail(r1))
            return out
        try:
            f0 = Flows(s0, ex0["truth"], r0.out)
            f1 = Flows(s1, ex1["truth"], r1.out)
        except Exception as e:
            out.violate("output-readable", "unreadable", str(e))
            return out
        if len(spec["conns"]) > 1:
            out.count("reach:multi_conn")
        if spec.get("coarse_clock"):
            out.count("reach:coarse_capture_clock")
        if len(f1.parsed) > len(f0.parsed):
            out.count("reach:a_added_packets")
        for c in ex0["truth"]["conns"]:
            conn = [x for x in spec["conns"] if x["id"] == c["id"]][0]
            if c["proto"] == "tls":
                out.count("reach:tls")
                if conn.get("alert_mid") is not None:
                    out.count("reach:alert_followed_by_data")
                if conn.get("hello_req") and conn["ver"] != T.TLS13:
                    out.count("reach:encrypted_hello_request_mid_connection")
                seq0 = self.tls_seq(f0, c["id"])
                seq1 = self.tls_seq(f1, c["id"])
                if seq0 and seq0 != seq1:
                    out.nontrivial = True
                if not subsequence(seq0, seq1):
                    out.violate("application-packets-unchanged", "tls-data-packets-not-subsequence",
                                "conn %d: %d data packets without -a, %d with -a; %s" % (c["id"], len(seq0), len(seq1), describe_conn(conn)))
                if conn["ver"] != T.TLS13:
                    plain = set(p for _, p in seq0)
                    for d_, p in seq1:
                        if len(p) >= 5 and p[0] == 0x17 and p[1] == 3 and p[2] <= 3 and \
                                int.from_bytes(p[3:5], "big") == len(p) - 5 and p not in plain:
                            out.violate("a-adds-only-handshake-alert-ccs-material", "application-record-exported-undecrypted",
                                        "conn %d: -a added a packet that is an application data record as captured "
                                        "(%d bytes, %s...); %s" % (c["id"], len(p), p[:8].hex(), describe_conn(conn)))
                            break
                    if spec.get("damaged_app_record"):
                        out.count("reach:damaged_application_record")
                        out.count("fault:ciphertext_bit_flipped")
                ch = bytes.fromhex(c["keys"]["ch_record"])
                sh = bytes.fromhex(c["keys"]["sh_record"]) if c["keys"].get("sh_record") else None
                cs = [p for d, p in seq1 if d == "c"]
                ss = [p for d, p in seq1 if d == "s"]
                npk = sum(1 for f in c["frames"] if f["d"] == "c" and f["lo"] < len(ch))
                if npk > 1:
                    out.count("reach:hello_spans_packets")
                if seq1 or seq0:
                    if not record_as_own_packets(ch, cs):
                        out.violate("hello-records-verbatim", "clienthello-not-verbatim", "conn %d %s" % (c["id"], describe_conn(conn)))
                    if sh is not None and not record_as_own_packets(sh, ss):
                        out.violate("hello-records-verbatim", "serverhello-not-verbatim", "conn %d %s" % (c["id"], describe_conn(conn)))
            elif c["proto"] == "quic":
                out.count("reach:quic")
                q0 = [(d, p) for d, p, _ in f0.udp_seq(c["id"])]
                q1 = [(d, p) for d, p, _ in f1.udp_seq(c["id"])]
                if q0 and q0 != q1:
                    out.nontrivial = True
                # pieces = stream-frame data in order (ground truth), restricted to what the plain run exported
                # a plain datagram is the concatenation of the data of its STREAM frames; with -a handshake bytes of the
                # same packet may stand between two frames' data, but every frame's data stays one contiguous piece
                frames_of = {}
                for e_ in c.get("expected", []):
                    fr_ = [bytes.fromhex(m["data"]) for pk in c["dmeta"][e_["dg"]]["pk"] if pk["kind"] not in ("retry", "vneg")
                           for m in pk["frames"] if m["n"] == "StreamFrame" and m["data"]]
                    frames_of.setdefault((e_["d"], bytes(e_["payload"])), fr_)
                j = 0
                off = 0
                ok = True
                for d, whole in q0:
                    for piece in frames_of.get((d, bytes(whole)), [whole]):
                        while j < len(q1):
                            at = q1[j][1].find(piece, off) if q1[j][0] == d else -1
                            if at >= 0:
                                off = at + len(piece)
                                break
                            j += 1
                            off = 0
                        if j >= len(q1):
                            ok = False
                            break
                    if not ok:
                        break
                if not ok:
                    out.violate("application-packets-unchanged", "quic-stream-data-missing-or-reordered-with-a",
                                "conn %d: %d datagrams without -a, %d with -a; %s" % (c["id"], len(q0), len(q1), describe_conn(conn)))
        return out

    def tls_seq(self, fl, cid):
        ent = fl.by_conn.get(cid)
        if ent is None:
            return []
        conv, cep, sep = ent
        return [("c" if s_ == cep else "s", p) for (s_, p, ts, pk) in conv.segs if p]


PROP = C13()
