"""C04 - concurrent connections are demultiplexed; each is exported as if it were alone."""
import copy

from ..rng import Rng
from .. import gen, world
from ..harness import Outcome
from .base import Prop, run_export, failure_class, failure_detail, Flows, describe_conn, apply_segmentation


class C04(Prop):
    id = "C04"
    level = "exploration"
    rule = ("world = N=2..6 simulated connections (TLS and QUIC, IPv4/IPv6 mixed, colliding endpoints: same hosts with "
            "different client ports, same client ip+port towards different servers, same server for different clients, "
            "QUIC zero-length and equal-length connection ids) plus unrelated traffic; each connection's packet sequence is "
            "fixed by its sub-seed, the simulated scheduler decides the interleaving (concurrent, staggered, bursty, "
            "sequential, reverse); key-log lines of all connections shuffled; oracle: per-flow packet sequences (bytes and "
            "timestamps) of the mixed export == those of the N solo exports (same packets, others removed); non-trivial = "
            ">= 2 connections actually interleave at the tap; distinct = distinct interleaving signatures")
    reach = ["same_hosts_diff_client_port", "same_client_port_diff_server", "same_server_diff_clients", "crossed_pair_same_ports", "same_server_same_client_port_other_client", "equal_initial_sequence_numbers", "quic_cid_begins_with_other_connections_cid",
             "resumption_shares_master_secret", "v4_v6_mixed",
             "tls_quic_mixed", "quic_zero_len_cid", "noise", "quic_like_datagram_to_later_client_socket", "long_key_log_line_across_block_boundary", "quic_connection_closes_while_others_run", "migration_vs_one_byte_id_of_other_connection", "secrets_block_per_connection", "n_ge_4", "policy_bursty", "policy_sequential"]

    def plan(self, tier):
        p = super().plan(tier)
        if tier == "quick":
            p["count"] = 330
        return p

    def gen(self, seed, idx, tier):
        R = Rng(seed, "C04")
        n = R.weighted([(2, 35), (3, 30), (4, 20), (5, 10), (6, 5)])
        policy = R.choice(["concurrent", "concurrent", "concurrent", "bursty", "bursty", "staggered", "sequential", "reverse"])
        cfg = {"records_max": 6, "len_max": 2000, "isn_wrap": False, "policy": policy}
        used = set()
        conns = []
        E = R.fork("ep")
        quic_ok = self.quic_available()
        for j in range(n):
            kw = {}
            mode = None
            v6 = None
            if conns and E.chance(65):
                o = E.choice(conns)
                mode = E.choice(["hosts", "cport", "server", "crossed", "server_cport"])
                v6 = o["v6"]
                if mode == "crossed":
                    # the two hosts connect to each other's server port from the same ephemeral port number
                    kw = {"client_ip": o["s"]["ip"], "server_ip": o["c"]["ip"], "client_port": o["c"]["port"],
                          "server_port": o["s"]["port"]}
                elif mode == "hosts":
                    kw = {"client_ip": o["c"]["ip"], "server_ip": o["s"]["ip"], "server_port": o["s"]["port"]}
                elif mode == "cport":
                    kw = {"client_ip": o["c"]["ip"], "client_port": o["c"]["port"]}
                elif mode == "server_cport":
                    # another client host that happens to use the same source port number towards the same server
                    kw = {"server_ip": o["s"]["ip"], "server_port": o["s"]["port"], "client_port": o["c"]["port"]}
                else:
                    kw = {"server_ip": o["s"]["ip"], "server_port": o["s"]["port"]}
            c2 = dict(cfg)
            if v6 is not None:
                c2["v6_pct"] = 100 if v6 else 0
            try:
                if quic_ok and E.chance(40):
                    from .. import quicpeer
                    c = quicpeer.gen_quic_conn(R.fork("q", j), j, {"small": True, "v6_pct": c2.get("v6_pct", 30),
                                                                    "zero_cid_pct": 30, "policy": policy,
                                                                    "long_ch_pct": 60, "crypto_reorder_pct": 60,
                                                                    "hs_dup_pct": 25}, used, **kw)
                    qs = [x for x in conns if x["proto"] == "quic"]
                    if qs and E.chance(35):
                        # this connection's ids begin with the (shorter) ids of an earlier connection
                        from .. import quicpeer as QP
                        o3 = E.choice(qs)
                        _, info = QP.build_units(o3)
                        oq = o3["q"]
                        import hashlib
                        # the earlier connection's scids are a pure function of its sub-seed
                        from ..rng import Rng as _R
                        RR = _R(o3["sub"], "quic")
                        c["q"]["scid_c_prefix"] = RR.fork("sscid").bytes(oq["scid_s_len"]).hex()
                        c["q"]["scid_s_prefix"] = RR.fork("cscid").bytes(oq["scid_c_len"]).hex()
                        c["cid_prefix_collision"] = True
                else:
                    c = gen.gen_tls_conn(R.fork("conn", j), j, c2, used, **kw)
                    tl_prev = [x for x in conns if x["proto"] == "tls"]
                    if tl_prev and E.chance(20):
                        gen.make_resumption_of(R.fork("resume", j), c, E.choice(tl_prev))
                    if R.chance(60):
                        apply_segmentation(R.fork("seg", j), c)
            except (ValueError, RuntimeError):
                c = gen.gen_tls_conn(R.fork("conn-alt", j), j, cfg, used)
                mode = None
            c["collide"] = mode
            if conns and c["proto"] == "tls" and E.chance(25):
                # equal initial sequence numbers in two connections (duplicate suppression is per connection)
                o2 = [x for x in conns if x["proto"] == "tls"]
                if o2:
                    o2 = E.choice(o2)
                    c["tcp"]["isn_c"], c["tcp"]["isn_s"] = o2["tcp"]["isn_c"], o2["tcp"]["isn_s"]
                    c["same_isn"] = True
            conns.append(c)
        if quic_ok and idx % 13 == 6:
            # a client changes its address mid-connection while an unrelated, earlier connection uses a one byte connection
            # id that equals the first byte of the id the migrating client addresses (ids are chosen independently)
            from .. import quicpeer
            from ..rng import Rng as _R
            used = set()
            a = quicpeer.gen_quic_conn(R.fork("mig", "a"), 1, {"small": True, "v6_pct": 0, "zero_cid_pct": 0, "migrate_pct": 100,
                                                               "one_way_pct": 0, "policy": "staggered"}, used)
            b = quicpeer.gen_quic_conn(R.fork("mig", "b"), 0, {"small": True, "v6_pct": 0, "zero_cid_pct": 0, "one_way_pct": 0,
                                                               "policy": "staggered"}, used)
            if a.get("c_mig") and a["q"]["scid_s_len"] >= 2:
                first = _R(a["sub"], "quic").fork("sscid").bytes(a["q"]["scid_s_len"])[:1]
                side_ = E.choice(["c", "s"])
                b["q"]["scid_%s_len" % side_] = 1
                b["q"]["scid_%s_prefix" % side_] = first.hex()
                b["q"]["ncid"] = {"s": 0, "c": 0}
                a["q"].pop("ncid_len", None)
                b["collide"] = None
                a["collide"] = None
                b["t"]["start_us"] = 0
                a["t"]["start_us"] = 3000
                conns = [b, a]
                conns[0]["short_id_prefix_of_migrating"] = True
                policy = "staggered"
                n = 2
        elif quic_ok and idx % 11 == 4:
            # close race: three QUIC connections to one server start one after the other and run concurrently; the one
            # created first is short and ends with CONNECTION_CLOSE while the others are still exchanging packets
            from .. import quicpeer
            conns = []
            used = set()
            qcfg = {"small": True, "v6_pct": 0, "zero_cid_pct": 20, "policy": "concurrent", "close_pct": 0, "one_way_pct": 0,
                    "migrate_pct": 0}
            for j in range(3):
                kw = {}
                if conns:
                    kw = {"server_ip": conns[0]["s"]["ip"], "server_port": conns[0]["s"]["port"]}
                c = quicpeer.gen_quic_conn(R.fork("race", j), j, qcfg, used, **kw)
                c["collide"] = "server" if j else None
                conns.append(c)
            J = conns[0]
            sc = [f for f in J["q"]["script"] if f.get("c")][:E.range(1, 2)]
            if sc:
                J["q"]["script"] = sc
                sc[-1]["c"][0]["pk"][0]["frames"].insert(0, ["close", 0x0100 + E.below(256)])
                sc[-1].pop("ncid_issue", None)
                J["closes_early"] = True
            policy = "concurrent"
            n = 3
        # one MAC per IP address
        macs = {}
        for c in conns:
            for side in ("c", "s"):
                macs.setdefault(c[side]["ip"], c[side]["mac"])
                c[side]["mac"] = macs[c[side]["ip"]]
        k = n
        if R.chance(40):
            conns.append(gen.gen_http_conn(R.fork("http"), k, used, port=R.choice([443, 80, 8443]), v6=R.chance(30)))
            k += 1
        if R.chance(40):
            conns.append(gen.gen_udp_noise(R.fork("udp"), k, used, v6=R.chance(30)))
        NZ = R.fork("noise2port")
        tlc = [c for c in conns if c["proto"] == "tls"]
        if tlc and NZ.chance(20):
            # an unrelated datagram that looks like a QUIC long header reaches the host and port from which a TLS client
            # connects a moment later (e.g. a DNS answer to a socket whose port number is reused)
            v = NZ.choice(tlc)
            try:
                nz = gen.gen_udp_noise(NZ.fork("n"), k + 1, used, v6=v["v6"], port=v["c"]["port"], server_ip=v["c"]["ip"])
                nz["s"]["mac"] = v["c"]["mac"]
                nz["dgrams"] = [["c", (bytes([0xC0 | NZ.below(16)]) + NZ.bytes(NZ.range(12, 60))).hex()]]
                nz["t"]["start_us"] = 0
                v["t"]["start_us"] = max(v["t"].get("start_us", 0), 3000) + 3000
                conns.append(nz)
                v["noise_to_client_socket"] = True
            except (ValueError, RuntimeError):
                pass
        spec = {"prop": "C04", "conns": conns, "tap": gen.gen_tap(R.fork("tap")), "policy": policy,
                "keychan": {"mode": "file", "perm_seed": R.bits(30)}}
        if R.chance(15):
            # a merged capture: the secrets of each connection arrive in a block of their own, in front of its first packet
            spec["keychan"] = {"mode": "dsb", "dsb_per_conn": True}
            spec["secrets_block_per_connection"] = True
        elif R.chance(15):
            # the shared key log is long (unrelated lines in front); one of the connections' lines lies across a block boundary
            spec["keychan"]["straddle"] = R.bits(30)
            spec["long_key_log"] = True
        if R.chance(30):
            from .base import random_cli
            spec["cli"] = random_cli(R.fork("cli"), [c for c in conns if c["proto"] in ("tls", "quic")], allow=("m", "a", "p"))
        return spec

    @staticmethod
    def _short_ids(conn):
        """the (1-2 byte) connection ids a QUIC connection starts with, as the peers derive them from the sub-seed"""
        from ..rng import Rng as _R
        q = conn["q"]
        out = []
        RR = _R(conn["sub"], "quic")
        for k, fork in (("c", "cscid"), ("s", "sscid")):
            ln = q.get("scid_%s_len" % k, 0)
            if 1 <= ln <= 2:
                cid = RR.fork(fork).bytes(ln)
                pre = bytes.fromhex(q.get("scid_%s_prefix" % k) or "")[:ln]
                out.append(pre + cid[len(pre):])
        return out

    def neutralisers(self):
        def no_udp_noise(spec):
            # KF-3 concerns unrelated UDP datagrams only: remove them
            keep = [c for c in spec["conns"] if c["proto"] != "udp"]
            if len(keep) == len(spec["conns"]):
                return None
            spec["conns"] = keep
            return spec
        return {"without-unrelated-udp-datagrams": no_udp_noise}

    def preconditions(self):
        def noise_begins_with_short_id(spec):
            """an unrelated datagram in short-header form (first bit 0) whose bytes behind the first one begin with a one or
            two byte connection id of a QUIC connection of the world"""
            ids = [i for c in spec["conns"] if c["proto"] == "quic" for i in self._short_ids(c)]
            for c in spec["conns"]:
                if c["proto"] != "udp":
                    continue
                for _, h in c["dgrams"]:
                    b = bytes.fromhex(h)
                    if b and not b[0] & 0x80 and any(b[1:1 + len(i)] == i for i in ids):
                        return True
            return False
        return {"unrelated-datagram-begins-with-short-connection-id": noise_begins_with_short_id}

    def quic_available(self):
        import os
        return os.path.exists(os.path.join(os.path.dirname(os.path.dirname(__file__)), "quicpeer.py"))

    def check(self, lane, spec):
        out = Outcome()
        ex = world.expand(spec)
        out.sim_time_ns = ex["stats"]["sim_time_ns"]
        res = run_export(lane, spec, ex, out)
        real = [c for c in spec["conns"] if c["proto"] in ("tls", "quic")]
        out.sample = {"seed": spec.get("seed"), "policy": spec.get("policy"), "conns": [describe_conn(c) for c in real][:4]}
        self.reach_probe(out, spec, ex)
        # measure of interleaving
        order = [e["conn"] for e in ex["taplog"] if e["conn"] in set(c["id"] for c in real)]
        switches = sum(1 for a, b in zip(order, order[1:]) if a != b)
        if switches >= len(real):
            out.nontrivial = True
        out.add("interleavings", world.interleave_signature(ex["taplog"]))
        out.digest = world.interleave_signature(ex["taplog"]) + ":" + str(spec.get("seed"))
        fc = failure_class(res)
        if fc:
            out.violate("mixed-run-does-not-fail", fc, failure_detail(res))
            return out
        try:
            flm = Flows(spec, ex["truth"], res.out)
        except Exception as e:
            out.violate("output-readable", "unreadable:%s" % getattr(e, "rule", type(e).__name__), str(e))
            return out
        solo_keys = set()
        for c in real:
            s2 = copy.deepcopy(spec)
            s2["faults"] = [{"k": "drop", "i": e["i"]} for e in ex["taplog"] if e["conn"] != c["id"]]
            # "as if it were alone": only this connection's packets and only its own key-log lines, in canonical order
            s2["keychan"] = {"mode": "file", "only_conn": c["id"]}
            ex2 = world.expand(s2)
            r2 = run_export(lane, s2, ex2, out)
            if failure_class(r2):
                out.count("solo_failed")
                continue
            try:
                fls = Flows(s2, ex2["truth"], r2.out)
            except Exception:
                out.count("solo_unreadable")
                continue
            a = [(p["raw"], p["ts_us"]) for p in fls.conn_packets(c["id"])]
            b = [(p["raw"], p["ts_us"]) for p in flm.conn_packets(c["id"])]
            if a != b:
                cls = "mixed-differs-from-solo:%s" % c["proto"]
                if not b:
                    cls = "flow-missing-in-mixed:%s" % c["proto"]
                elif not a:
                    cls = "flow-only-in-mixed:%s" % c["proto"]
                out.violate("mixed-equals-union-of-solo", cls,
                            "conn %d: solo export %d packets, mixed export %d packets; %s; collide=%s policy=%s" % (
                                c["id"], len(a), len(b), describe_conn(c), c.get("collide"), spec.get("policy")))
            if fls.extra:
                out.count("solo_has_extra_flow")
        for key in flm.extra:
            out.violate("no-flow-without-connection", "extra-flow-in-mixed", "flow %s" % [(e[0].hex(), e[1]) for e in key[2]])
        for c in ex["truth"]["conns"]:
            if c["proto"] in ("http", "udp") and c["id"] in flm.by_conn:
                out.count("noise_exported")
        return out

    def reach_probe(self, out, spec, ex):
        conns = [c for c in spec["conns"] if c["proto"] in ("tls", "quic")]
        for c in conns:
            if c.get("collide") == "hosts":
                out.count("reach:same_hosts_diff_client_port")
            elif c.get("collide") == "cport":
                out.count("reach:same_client_port_diff_server")
            elif c.get("collide") == "server":
                out.count("reach:same_server_diff_clients")
            elif c.get("collide") == "crossed":
                out.count("reach:crossed_pair_same_ports")
            elif c.get("collide") == "server_cport":
                out.count("reach:same_server_same_client_port_other_client")
            if c.get("same_isn"):
                out.count("reach:equal_initial_sequence_numbers")
            if c.get("noise_to_client_socket"):
                out.count("reach:quic_like_datagram_to_later_client_socket")
            if c.get("cid_prefix_collision"):
                out.count("reach:quic_cid_begins_with_other_connections_cid")
            if c.get("resumes") is not None:
                out.count("reach:resumption_shares_master_secret")
            if c["proto"] == "quic" and (c.get("q", {}).get("scid_c_len") == 0 or c.get("q", {}).get("scid_s_len") == 0):
                out.count("reach:quic_zero_len_cid")
        if len(set(c["v6"] for c in conns)) > 1:
            out.count("reach:v4_v6_mixed")
        if len(set(c["proto"] for c in conns)) > 1:
            out.count("reach:tls_quic_mixed")
        if len(conns) < len(spec["conns"]):
            out.count("reach:noise")
        if len(conns) >= 4:
            out.count("reach:n_ge_4")
        if spec.get("long_key_log"):
            out.count("reach:long_key_log_line_across_block_boundary")
        if any(c.get("short_id_prefix_of_migrating") for c in conns):
            out.count("reach:migration_vs_one_byte_id_of_other_connection")
        if any(c.get("closes_early") for c in conns):
            out.count("reach:quic_connection_closes_while_others_run")
        if spec.get("secrets_block_per_connection"):
            out.count("reach:secrets_block_per_connection")
        if spec.get("policy") in ("bursty", "sequential"):
            out.count("reach:policy_" + spec["policy"])


PROP = C04()
