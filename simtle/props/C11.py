"""C11 - with -c exactly the packets with a bad transport checksum are ignored."""
import copy
import hashlib

from ..rng import Rng
from .. import gen, world
from ..harness import Outcome
from .base import Prop, run_export, failure_class, failure_detail, describe_conn

TARGETS = [["fold", 0x10000], ["fold", 0xFFFF], ["fold", 0x10001], ["final", 0xFFFF], ["final", 0x0001],
           ["raw_multiple", 0xFFFF], ["fold", 0x1000E], ["final", 0xFFFE]]


class C11(Prop):
    id = "C11"
    level = "fault_enumeration"
    rule = ("fault = wire corruption detected by the transport checksum: for a simulated world (TCP and UDP flows, IPv4 and "
            "IPv6, odd/even lengths, 1-byte payloads, Ethernet-padded frames; the free TCP window field / the QUIC client "
            "port steer the one's-complement sum of chosen packets through fold boundaries: first fold == 0xffff, 0x10000, "
            "0x10001, checksum field 0x0000, raw sum a multiple of 0xffff, UDP checksum computed 0 -> 0xffff) a set B of "
            "packets is damaged (checksum field XORed, or one payload bit flipped with the checksum left alone); oracle: "
            "export(-c, damaged capture) is byte-identical to export(no -c, capture without B); B = {} , every single packet "
            "in turn (thorough) or sampled singles and random subsets (quick); one evaluation = one (B) pair of exports; "
            "non-trivial = B non-empty or a steered packet present; distinct = (scenario, B)")
    reach = ["steer_fold_10000", "steer_final_ffff", "steer_raw_multiple", "udp_csum_ffff", "ipv6_tcp", "ipv6_udp",
             "ipv4_udp", "odd_length", "one_byte_payload", "padded_frame", "bad_field", "bad_bitflip", "subset_ge_2",
             "empty_B", "retransmitted_segment", "tcp_and_udp_between_same_hosts",
             "server_port_other_than_443", "udp_without_checksum", "c_run_after_aborted_run_without_c"]

    def plan(self, tier):
        p = super().plan(tier)
        if tier == "quick":
            p["count"] = 120
        return p

    def gen(self, seed, idx, tier):
        R = Rng(seed, "C11")
        cfg = {"records_max": 5, "len_max": 1500, "isn_wrap": False, "seg_pct": 70, "quic_pct": 40,
               "net": {"dup": 60, "dup_rto": 60, "dup_late": 20, "delay": 20, "_D": 3}, "net_pct": 50,
               "quic": {"small": True, "steer_csum": True, "net": {"dup": 60, "delay": 30, "_D": 2}}}
        spec = gen.gen_mixed_world(R.fork("world"), cfg, nconn=R.range(1, 3), with_noise=True)
        if R.chance(35):
            # TCP and UDP between the same pair of hosts (e.g. HTTPS and HTTP/3 to one server)
            tls = [c for c in spec["conns"] if c["proto"] == "tls"]
            if tls:
                a = R.choice(tls)
                used = set((c["c"]["ip"], c["c"]["port"], c["s"]["ip"], c["s"]["port"]) for c in spec["conns"])
                k = max(c["id"] for c in spec["conns"]) + 1
                from .. import quicpeer
                try:
                    if R.chance(60):
                        q = quicpeer.gen_quic_conn(R.fork("samehost"), k, {"small": True, "v6_pct": 100 if a["v6"] else 0}, used,
                                                   client_ip=a["c"]["ip"], server_ip=a["s"]["ip"])
                    else:
                        q = gen.gen_udp_noise(R.fork("samehost"), k, used, v6=a["v6"], client_ip=a["c"]["ip"], server_ip=a["s"]["ip"])
                    q["c"]["mac"], q["s"]["mac"] = a["c"]["mac"], a["s"]["mac"]
                    spec["conns"].append(q)
                    spec["same_host_pair"] = True
                except (ValueError, RuntimeError):
                    pass
        for c in spec["conns"]:
            if c["proto"] in ("quic", "udp") and not c["v6"] and R.fork("nocsum", c["id"]).chance(30):
                # this sender (or both) generates no UDP checksum: field zero, nothing to verify, never a bad packet
                c["udp_nocsum"] = R.fork("nocsum-dir", c["id"]).choice(["c", "s", "cs"])
        # connections to other server ports (TLS selected with -p; QUIC is recognised on any port)
        PP = R.fork("ports")
        extra_ports = []
        for c in spec["conns"]:
            if c["proto"] in ("tls", "quic") and c["s"]["port"] == 443 and PP.chance(35):
                c["s"]["port"] = PP.choice([8443, 4433, 9443, PP.range(1024, 32000)])
                c["other_port"] = True
                if c["proto"] == "tls":
                    extra_ports.append(c["s"]["port"])
        if extra_ports:
            spec.setdefault("cli", {})["p"] = sorted(set(extra_ports))
        spec["prop"] = "C11"
        spec["tier"] = tier
        spec["bseed"] = R.bits(40)
        ex = world.expand(spec)
        tl = ex["taplog"]
        data = [e["i"] for e in tl if "lo" in e]
        steer = []
        for t in R.sample(TARGETS, min(len(TARGETS), 4)):
            if data:
                steer.append([R.choice(data), t])
        spec["steer"] = steer
        # UDP: the QUIC client port is the free 16-bit word; choose it so that one datagram's checksum computes to
        # zero and is therefore transmitted as 0xffff (RFC 768)
        from .. import netbuild as NB, quicpeer
        import struct
        for c in spec["conns"]:
            if c["proto"] != "quic" or not R.chance(60):
                continue
            _, info = quicpeer.build_units(c)
            j = R.below(len(info["dgrams"]))
            pl = info["dgrams"][j]
            sip, cip = bytes.fromhex(c["s"]["ip"]), bytes.fromhex(c["c"]["ip"])
            ln = 8 + len(pl)
            hdr = struct.pack(">HHHH", c["s"]["port"], 0, ln, 0)     # the client port word set to zero
            s0 = NB.raw_sum16(NB.pseudo(c["v6"], sip, cip, 17, ln) + hdr + pl)
            port = (-s0) % 0xFFFF
            taken = set(x["c"]["port"] for x in spec["conns"]) | {443, 44330, 8080}
            if 1024 <= port <= 65535 and port not in taken:
                c["c"]["port"] = port
                c["udp_ffff_dg"] = j
        return spec

    def subsets(self, spec, ex, tier):
        R = Rng(spec["bseed"], "B")
        tl = ex["taplog"]
        # datagrams sent without a checksum cannot be damaged detectably: they are never part of B
        idx = [e["i"] for e in tl if "ctl" not in e and not e.get("udp_nocsum")]
        out = [[]]
        steered = [s[0] for s in spec.get("steer", [])]
        # first copies of segments that are retransmitted later (the copy must take over when the first is bad)
        firstcopies = []
        seen = {}
        for e in tl:
            if "lo" in e:
                key = (e["conn"], e["d"], e["lo"], e["hi"])
                if e.get("dup") and key in seen:
                    firstcopies.append(seen[key])
                seen.setdefault(key, e["i"])
        # the first payload packet of every connection (it is the one that opens the session)
        opening = []
        seen_conn = set()
        for e in tl:
            if "ctl" not in e and e["conn"] not in seen_conn:
                seen_conn.add(e["conn"])
                opening.append(e["i"])
        singles = idx if tier != "quick" else sorted(set(R.sample(idx, min(len(idx), 4)) + steered[:2] + firstcopies[:2] +
                                                         opening[:3]))
        allowed = set(idx)
        singles = [i for i in singles if i in allowed]
        for i in singles:
            out.append([[i, R.choice(["field", "flip"]), R.bits(16) or 1, R.below(4000), R.below(8)]])
        for _ in range(3 if tier == "quick" else 10):
            k = R.range(2, max(2, min(6, len(idx))))
            sub = sorted(R.sample(idx, min(k, len(idx))))
            out.append([[i, R.choice(["field", "flip"]), R.bits(16) or 1, R.below(4000), R.below(8)] for i in sub])
        return out

    def focus_spec(self, spec, viol):
        if viol.focus is not None:
            spec["only_B"] = viol.focus
            return spec
        return None

    def check(self, lane, spec):
        out = Outcome()
        ex0 = world.expand(spec)
        out.sim_time_ns = ex0["stats"]["sim_time_ns"]
        out.sample = {"seed": spec.get("seed"), "conns": [describe_conn(c) for c in spec["conns"]][:3],
                      "steer": spec.get("steer")}
        self.reach_probe(out, spec, ex0)
        Bs = [spec["only_B"]] if "only_B" in spec else self.subsets(spec, ex0, spec.get("tier", "quick"))
        for B in Bs:
            if lane.expired():
                out.count("enumeration_truncated_by_budget")
                break
            sa = copy.deepcopy(spec)
            sb = copy.deepcopy(spec)
            for (i, kind, x, off, bit) in B:
                if kind == "field":
                    sa.setdefault("faults", []).append({"k": "badcsum", "i": i, "xor": x})
                    out.count("reach:bad_field")
                else:
                    sa.setdefault("faults", []).append({"k": "flip", "i": i, "off": off, "bit": bit, "fix": False})
                    out.count("reach:bad_bitflip")
                sb.setdefault("faults", []).append({"k": "drop", "i": i})
                out.count("fault:corrupted_packet")
            sa.setdefault("cli", {})["c"] = True
            sb.setdefault("cli", {}).pop("c", None)
            exa = world.expand(sa)
            exb = world.expand(sb)
            if B and spec.get("bseed", 0) % 4 == 1 and B is Bs[min(1, len(Bs) - 1)]:
                # the -c run follows, in the same process, a run WITHOUT -c that was aborted by a capture truncated inside
                # its last block: what that run had set up must not decide whether this one verifies
                s0_ = copy.deepcopy(sa)
                s0_.get("cli", {}).pop("c", None)
                ex0_ = world.expand(s0_)
                rr = lane.sut(spec.get("hashseed", 0)).run(ex0_["capture"][:-9], ex0_["keylog"], ex0_["argv"],
                                                           extra_runs=[dict(capture=exa["capture"], keylog=exa["keylog"],
                                                                            argv_opts=exa["argv"])])
                out.exports += 2
                out.count("reach:c_run_after_aborted_run_without_c")
                ra = rr[1]
            else:
                ra = run_export(lane, sa, exa, out)
            if False:
                ra = run_export(lane, sa, exa, out)
            rb = run_export(lane, sb, exb, out)
            out.exports -= 1    # one evaluation = one pair
            if not B:
                out.count("reach:empty_B")
            if len(B) >= 2:
                out.count("reach:subset_ge_2")
            if B or spec.get("steer"):
                out.nontrivial = True
                out.add("B", "%s:%s" % (spec.get("seed"), [b[0] for b in B]))
                out.item("B:%s" % [b[:2] for b in B])
            tag = "B=%s steer=%s" % ([(b[0], b[1]) for b in B], spec.get("steer"))
            fa = failure_class(ra)
            if fa:
                out.violate("run-with-c-does-not-fail", fa, tag + "\n" + failure_detail(ra), focus=B)
                continue
            if failure_class(rb):
                out.count("reference_run_failed")
                continue
            if hashlib.sha256(ra.out).hexdigest() != hashlib.sha256(rb.out).hexdigest():
                from .base import Flows
                d = ""
                try:
                    fa_ = Flows(sa, exa["truth"], ra.out)
                    fb_ = Flows(sb, exb["truth"], rb.out)
                    d = "with -c: %d packets, filtered without -c: %d packets" % (len(fa_.parsed), len(fb_.parsed))
                    cls = "fewer-packets-with-c" if len(fa_.parsed) < len(fb_.parsed) else (
                        "more-packets-with-c" if len(fa_.parsed) > len(fb_.parsed) else "different-packets")
                except Exception:
                    cls = "different-output"
                out.violate("c-equals-filtered-capture", cls, tag + ": " + d, focus=B)
        return out

    def reach_probe(self, out, spec, ex):
        byid = {c["id"]: c for c in spec["conns"]}
        if any(c.get("other_port") for c in spec["conns"]):
            out.count("reach:server_port_other_than_443")
        for e in ex["taplog"]:
            c = byid[e["conn"]]
            tcp = c["proto"] in ("tls", "http")
            if "lo" in e:
                n = e["hi"] - e["lo"]
                if n == 1:
                    out.count("reach:one_byte_payload")
                if n % 2:
                    out.count("reach:odd_length")
                if n < 6 and c.get("pad_eth", True) and not c["v6"]:
                    out.count("reach:padded_frame")
            if c["v6"] and tcp:
                out.count("reach:ipv6_tcp")
            elif c["v6"]:
                out.count("reach:ipv6_udp")
            elif not tcp:
                out.count("reach:ipv4_udp")
            if e.get("steered"):
                k = e["steer"]
                out.count("reach:steer_fold_10000" if k == ["fold", 0x10000] else (
                    "reach:steer_final_ffff" if k == ["final", 0xFFFF] else (
                        "reach:steer_raw_multiple" if k[0] == "raw_multiple" else "reach:steer_other")))
            if e.get("udp_ffff"):
                out.count("reach:udp_csum_ffff")
            if e.get("udp_nocsum"):
                out.count("reach:udp_without_checksum")
            if e.get("dup"):
                out.count("reach:retransmitted_segment")
        if spec.get("same_host_pair"):
            out.count("reach:tcp_and_udp_between_same_hosts")


PROP = C11()
