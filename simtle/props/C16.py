"""C16 - QUIC packet numbers are reconstructed as RFC 9000 Appendix A.3 defines."""
from ..rng import Rng
from .. import gen, world, quicpeer, quicref as Q
from ..harness import Outcome
from .base import Prop, run_export, failure_class, failure_detail, describe_conn

NET = {"delay": 150, "dup": 100, "lost": 120, "lost_before": 80, "_D": 4}


class C16(Prop):
    id = "C16"
    level = "exploration"
    rule = ("scenario = one simulated QUIC connection whose UDP path loses, duplicates and reorders datagrams while the "
            "senders skip packet numbers (aimed at the window boundaries expected +- 2^(8n-1) +- {0,1}) and encode them in "
            "1-4 bytes; half of the scenarios start from a randomised state (largest received packet number L in [0,2^62), "
            "biased to 2^k +- small and > 2^53, preset in the real session object; the peer continues at L+1); a probe "
            "records every call of the real reconstruction (space, direction, largest before, truncated value, length, "
            "result); oracle: result == RFC 9000 A.3 applied to the same inputs, and largest-before == the model's maximum "
            "over earlier captured packets of that space and direction; non-trivial = at least one reconstruction with "
            "largest > 0; distinct = distinct (largest, truncated, length) triples")
    reach = ["pnlen_1", "pnlen_2", "pnlen_3", "pnlen_4", "skip_to_window_boundary", "largest_above_2_53",
             "largest_above_2_32", "reordered_packet", "duplicate_packet", "lost_packet", "space_initial", "space_handshake",
             "space_application", "both_directions", "candidate_minus_window", "candidate_plus_window", "two_connections",
             "jump_in_packet_with_extension_frame", "zero_rtt_then_one_rtt",
             "first_packet_of_space_damaged"]

    def plan(self, tier):
        p = super().plan(tier)
        if tier == "quick":
            p["count"] = 800
        return p

    def gen(self, seed, idx, tier):
        R = Rng(seed, "C16")
        used = set()
        cfg = {"small": True, "net": NET, "zero_rtt_any_suite_pct": 0, "ku_pct": 10, "retry_pct": 10, "ncid_late_pct": 0}
        conn = quicpeer.gen_quic_conn(R.fork("conn"), 0, cfg, used)
        q = conn["q"]
        # aim skips at window boundaries
        B = R.fork("boundary")
        for fl in q["script"]:
            for d in "cs":
                for dg in fl.get(d, []):
                    for pk in dg["pk"]:
                        if B.chance(45):
                            n = B.range(1, 3)
                            pk["pnlen"] = n
                            pk["skip"] = max(0, (1 << (8 * n - 1)) + B.choice([-3, -2, -1, 0]) - 1 - B.choice([0, 0, 1, 2]))
                            pk["boundary"] = True
                            fr = pk.get("frames")
                            if fr is not None and B.chance(30) and not (fr and fr[-1][0] == "stream" and not fr[-1][4]):
                                # the packet that carries the jump ends in a one byte extension frame (IMMEDIATE_ACK): it is
                                # authenticated, so it moves the reference whatever a receiver makes of its frames
                                fr.append(["ext1", 0x1f])
                                pk["ext_last"] = True
        conns = [conn]
        if R.chance(30):
            # a second, concurrent connection: packet-number state must be per connection
            c2 = quicpeer.gen_quic_conn(R.fork("conn2"), 1, cfg, used)
            conns.append(c2)
        spec = {"prop": "C16", "conns": conns, "tap": gen.gen_tap(R.fork("tap")),
                "policy": R.choice(["concurrent", "staggered", "sequential"])}
        if idx % 2 == 0 and R.fork("dmg").chance(25):
            self.damage_first_packet(R.fork("dmg2"), spec, conn)
        if idx % 2:
            P = R.fork("preset")
            pre = {}
            for k, side in (("ca", "c"), ("sa", "s")):
                L = P.weighted([((1 << P.range(8, 61)) + P.range(-300, 300), 50), (P.range(1 << 53, (1 << 62) - (1 << 33)), 30),
                                (P.range(0, 1 << 40), 20)])
                L = max(0, min(L, (1 << 62) - (1 << 33)))
                q["pn0"][k] = L + 1
                pre[side] = {"RTT_1": L}
            spec["pn_preset"] = {str(conn["c"]["port"]): pre}     # per connection (keyed by client port)
        return spec

    def damage_first_packet(self, R, spec, conn):
        """One bit of the packet number field of the first 1-RTT packet captured in one direction is flipped on the wire
        (header protection sample intact, so the packet number length is read correctly but the number is wrong and
        authentication fails): a packet that was not authenticated must not become the reference."""
        # the damaged packet must not be the one that announces new connection ids (nobody could follow a switch then)
        conn["q"]["ncid"] = {"s": 0, "c": 0}
        ex = world.expand(spec)
        t = ex["truth"]["conns"][0]
        d = R.choice("cs")
        first = None
        for f in t["frames"]:
            if f["d"] != d or not f["kept"]:
                continue
            pks = t["dmeta"][f["dg"]]["pk"]
            if any(pk.get("space") == "RTT_1" for pk in pks):
                if pks[0]["kind"] == "1rtt" and not f["dup"]:
                    first = (f, pks[0])
                break
        if first is None:
            return
        f, pk = first
        off = 1 + len(pk["dcid"]) // 2 + R.below(pk["pnlen"])
        spec["faults"] = [{"k": "flip", "i": f["i"], "off": off, "bit": R.below(8), "fix": True}]
        spec["damaged_first"] = d

    def check(self, lane, spec):
        out = Outcome()
        ex = world.expand(spec)
        out.sim_time_ns = ex["stats"]["sim_time_ns"]
        res = run_export(lane, spec, ex, out, probes=["quic"], pn_preset=spec.get("pn_preset"))
        out.sample = {"seed": spec.get("seed"), "conns": [describe_conn(c) for c in spec["conns"]], "preset": spec.get("pn_preset")}
        fc = failure_class(res)
        if fc:
            out.violate("no-failure", fc, failure_detail(res))
            return out
        all_calls = [p for p in (res.probes or []) if p[0] == "q_pn"]
        for conn, t in zip(spec["conns"], ex["truth"]["conns"]):
            calls = [p for p in all_calls if p[1] == conn["c"]["port"]]
            self.judge_conn(out, spec, conn, t, calls, preset_applies=(conn["id"] == 0))
        return out

    def judge_conn(self, out, spec, conn, t, calls, preset_applies):
        # model: captured packets in capture order with their full packet numbers
        model_largest = {}
        pre = (spec.get("pn_preset") or {}).get(str(conn["c"]["port"]), {})
        for side in "cs":
            for sp in ("INITIAL", "HANDSHAKE", "RTT_1"):
                model_largest[(side, sp)] = int(pre.get(side, {}).get(sp, 0))
        expected_calls = []
        ambiguous = {}
        damaged = set(x["i"] for x in spec.get("faults", []) if x.get("k") == "flip") if conn["id"] == 0 else set()
        for f in t["frames"]:
            if not f["kept"]:
                continue
            for pk in t["dmeta"][f["dg"]]["pk"]:
                if pk["kind"] in ("retry", "vneg"):
                    continue
                expected_calls.append((f["d"], pk["space"], pk["pn"], pk["pnlen"], f))
        self.reach_probe(out, t)
        aligned = len(calls) == len(expected_calls)
        if not aligned:
            out.count("probe_calls_not_aligned_with_model")
        for i, c in enumerate(calls):
            _, port, isserver, space, before, trunc_hex, result_hex, ts = c
            side = "s" if isserver else "c"
            if space == "RTT_O":
                space = "RTT_1"     # the probe names the table entry the real code used; 0-RTT and 1-RTT share one space
            nbytes = len(trunc_hex) // 2
            trunc = int(trunc_hex, 16)
            got = int(result_hex, 16)
            want = Q.decode_pn(before, trunc, 8 * nbytes)
            out.add("triples", "%d/%d/%d" % (before, trunc, nbytes))
            out.count("reach:pnlen_%d" % nbytes)
            out.count("reach:space_" + {"INITIAL": "initial", "HANDSHAKE": "handshake", "RTT_1": "application"}[space])
            if before > 0:
                out.nontrivial = True
            if before >= (1 << 53):
                out.count("reach:largest_above_2_53")
            elif before >= (1 << 32):
                out.count("reach:largest_above_2_32")
            cand = ((before + 1) & ~((1 << (8 * nbytes)) - 1)) | trunc
            if want == cand + (1 << (8 * nbytes)):
                out.count("reach:candidate_plus_window")
            elif want == cand - (1 << (8 * nbytes)):
                out.count("reach:candidate_minus_window")
            if got != want:
                out.violate("reconstruction-equals-rfc9000-a3", "wrong-packet-number:len%d:%s" % (
                    nbytes, "above-2^53" if before >= (1 << 53) else "below-2^53"),
                    "%s %s: largest %d truncated %#x (%d bytes): reconstructed %d, RFC 9000 A.3 gives %d" % (
                        side, space, before, trunc, nbytes, got, want))
            if aligned:
                d, sp, pn, pnlen, f = expected_calls[i]
                ml = model_largest[(d, sp)]
                decodable = Q.decode_pn(ml, pn & ((1 << (8 * pnlen)) - 1), 8 * pnlen) == pn
                if f["i"] in damaged:
                    # damaged on the wire: fails authentication, so it is not "successfully processed"
                    decodable = False
                    out.count("reach:first_packet_of_space_damaged")
                    out.count("fault:packet_number_bit_flipped")
                elif not decodable:
                    # reordering/loss moved this packet outside the window its sender encoded for: no receiver can
                    # decrypt it, and (RFC 9000 A.3: largest *successfully processed*) it must not move the reference
                    out.count("packet_outside_sender_window")
                if (d, sp) != (side, space):
                    out.violate("largest-per-space-and-direction", "space-or-direction-confused",
                                "call %d: real code used %s/%s, the captured packet is %s/%s" % (i, side, space, d, sp))
                elif before != ml:
                    out.violate("largest-per-space-and-direction", "largest-differs-from-model",
                                "%s %s call %d: largest before = %d, maximum over earlier captured packets = %d" % (
                                    side, space, i, before, ml))
                elif got != pn and pnlen == nbytes and trunc == pn & ((1 << (8 * nbytes)) - 1) and want == pn:
                    pass
                if decodable:
                    model_largest[(d, sp)] = max(ml, pn)
        if len(set(c[2] for c in calls)) > 1:
            out.count("reach:both_directions")
        if len(spec["conns"]) > 1:
            out.count("reach:two_connections")

    def reach_probe(self, out, t):
        seen = set()
        maxdg = {}
        for f in t["frames"]:
            if f["dup"]:
                out.count("reach:duplicate_packet")
                out.count("fault:udp_duplicate")
            elif f["dg"] < maxdg.get(f["d"], -1):
                out.count("reach:reordered_packet")
                out.count("fault:udp_reorder")
            maxdg[f["d"]] = max(maxdg.get(f["d"], -1), f["dg"])
            seen.add(f["dg"])
        lost = len(t["dmeta"]) - len(seen)
        if lost:
            out.count("reach:lost_packet")
            out.count("fault:udp_loss", lost)
        for dm in t["dmeta"]:
            for pk in dm["pk"]:
                if pk.get("boundary"):
                    out.count("reach:skip_to_window_boundary")
                if pk.get("ext_last"):
                    out.count("reach:jump_in_packet_with_extension_frame")
        kinds = [pk["kind"] for f in t["frames"] if f["kept"] and f["d"] == "c" for pk in t["dmeta"][f["dg"]]["pk"]]
        if "0rtt" in kinds and "1rtt" in kinds[kinds.index("0rtt"):]:
            out.count("reach:zero_rtt_then_one_rtt")


PROP = C16()
