"""Common machinery of the per-property batteries: running the real TLExport on an expanded world and
relating its output to the simulated connections."""
import copy
import hashlib

from .. import world, observer, gen
from ..harness import Outcome
from ..rng import Rng
from .. import tlsref as T

COMMON_ASSUMPTIONS = [
    "reference TLS peers validated by decoding the repository's 30 real OpenSSL captures (MACs/tags verified): "
    "selftest/validate_tls_model.py",
    "reference QUIC peer validated on RFC 9001 Appendix A vectors and RFC 9000 A.3 example: selftest/validate_quic_model.py",
    "IDEA-CBC and the TLS 1.3 CCM record layer have no sample capture; validated by model round trip only",
    "CPU budget (RLIMIT_CPU 120 s; typical run 0.02-0.3 s, generated captures are capped at ~1000 segments per direction) is the hang criterion; wall timeouts are harness errors",
    "fork-server run of tlexport.main.run() == CLI run (sampled by C18 through a real `python -m tlexport.main`)",
]


class Prop:
    id = "C00"
    level = "exploration"
    rule = ""
    assumptions = COMMON_ASSUMPTIONS
    reach = []

    def plan(self, tier):
        if tier == "quick":
            return {"count": 400, "budget_s": 150, "min_budget": 40, "max_triage": 2}
        import os
        return {"count": None, "budget_s": int(os.environ.get("VERIF_BUDGET_S", "900")), "min_budget": 120,
                "max_triage": 4}

    def neutralisers(self):
        return {}

    def primary_spec(self, spec):
        return spec

    def gen(self, seed, idx, tier):
        raise NotImplementedError

    def check(self, lane, spec):
        raise NotImplementedError


def run_export(lane, spec, ex, out, probes=None, argv_extra=None, keylog="__ex__", **kw):
    """one run of the real TLExport on the expanded world"""
    kl = ex["keylog"] if keylog == "__ex__" else keylog
    argv = list(ex["argv"]) + list(argv_extra or [])
    cover = (spec.get("idx", 1) % 25 == 0) and not getattr(out, "_covered", False)
    if cover:
        probes = list(probes or []) + ["cover"]
        out._covered = True
    res = lane.sut(spec.get("hashseed", 0)).run(ex["capture"], kl, argv, probes=probes, **kw)[0]
    out.exports += 1
    if cover and res.probes:
        for p in res.probes:
            if p[0] == "cover":
                for ln in p[1]:
                    out.add("tlexport_lines", ln)
        res.probes = [p for p in res.probes if p[0] != "cover"]
    return res


def failure_class(res):
    """None if the run did not fail, else a class string"""
    if res.cpu_exceeded:
        return "cpu-budget-exceeded"
    if res.exc is not None:
        return "crash:%s@%s" % (res.exc["type"], res.exc["where"])
    if res.exit != 0:
        return "exit-status-%s" % res.exit
    if res.out is None:
        return "no-output-file"
    return None


def failure_detail(res):
    if res.exc is not None:
        return "%s: %s\n%s" % (res.exc["type"], res.exc["msg"], res.exc["tb"][-1200:])
    return (res.stdout or "")[-600:]


def out_port(spec, server_port):
    """server port expected in the output for an input server port (documented -m behaviour)"""
    cli = spec.get("cli", {})
    if "m" not in cli or cli["m"] is None:
        return server_port
    pairs = cli["m"] if cli["m"] else ["443:8080"]
    pm = {}
    for p in pairs:
        a, b = p.replace(",", "").split(":")
        pm[int(a)] = int(b)
    return pm.get(server_port, 8080)


class Flows:
    """output of one run related to the simulated connections"""

    def __init__(self, spec, truth, data, lenient=True, port_fn=None):
        self.errors = []
        self.parsed, self.tcp, self.udp = observer.observe(data, self.errors if lenient else None)
        self.by_conn = {}
        self.extra = []
        used = set()
        for c in truth["conns"]:
            cip = bytes.fromhex(c["c"]["ip"])
            sip = bytes.fromhex(c["s"]["ip"])
            cep = (cip, c["c"]["port"])
            proto = 6 if c["proto"] in ("tls", "http") else 17
            sp = port_fn(c) if port_fn else out_port(spec, c["s"]["port"])
            sep = (sip, sp)
            key = (proto, c["v6"], tuple(sorted([cep, sep])))
            tab = self.tcp if proto == 6 else self.udp
            if key in tab:
                self.by_conn[c["id"]] = (tab[key], cep, sep)
                used.add(key)
        # -a exports the (unprotected) content of QUIC Version Negotiation packets on purpose, no keys needed: a flow
        # between the hosts of an unrelated UDP exchange that contains such a packet is not a foreign flow
        vn_hosts = set()
        if spec.get("cli", {}).get("a"):
            for c in spec["conns"]:
                if c["proto"] == "udp" and any(len(b) >= 10 and int(b[:2], 16) & 0xC0 == 0xC0 and b[2:10] == "00000000"
                                               for _, b in c["dgrams"]):
                    vn_hosts.add(frozenset([bytes.fromhex(c["c"]["ip"]), bytes.fromhex(c["s"]["ip"])]))
        self.version_negotiation_flows = []
        for k in list(self.tcp) + list(self.udp):
            if k not in used:
                if k[0] == 17 and frozenset(e[0] for e in k[2]) in vn_hosts:
                    self.version_negotiation_flows.append(k)
                    continue
                self.extra.append(k)

    def tcp_streams(self, cid):
        """-> {"c": bytes, "s": bytes} exported for connection cid (empty if no conversation)"""
        ent = self.by_conn.get(cid)
        if ent is None:
            return {"c": b"", "s": b""}
        conv, cep, sep = ent
        return {"c": bytes(conv.stream.get(cep, b"")), "s": bytes(conv.stream.get(sep, b""))}

    def udp_seq(self, cid, nonempty=True):
        """-> list of (dir, payload, ts_us) in file order"""
        ent = self.by_conn.get(cid)
        if ent is None:
            return []
        pk, cep, sep = ent
        out = []
        for p in pk:
            if nonempty and not p["payload"]:
                continue
            d = "c" if (p["ip_src"], p["sport"]) == cep else "s"
            out.append((d, bytes(p["payload"]), p["ts_us"]))
        return out

    def conn_packets(self, cid):
        ent = self.by_conn.get(cid)
        if ent is None:
            return []
        obj = ent[0]
        return obj.pkts if hasattr(obj, "pkts") else obj


def stream_mismatch_class(got, want):
    """classify how an exported stream differs from the truth"""
    if got == want:
        return None
    if want.startswith(got):
        return "missing-suffix"
    if got.startswith(want):
        return "extra-suffix"
    # common prefix / suffix
    i = 0
    n = min(len(got), len(want))
    while i < n and got[i] == want[i]:
        i += 1
    j = 0
    while j < n - i and got[len(got) - 1 - j] == want[len(want) - 1 - j]:
        j += 1
    if len(got) < len(want) and i + j >= len(got):
        return "hole"
    if len(got) > len(want) and i + j >= len(want):
        return "duplicated-or-inserted"
    if len(got) == len(want):
        return "garbled"
    return "different"


def describe_conn(conn):
    d = {"id": conn["id"], "proto": conn["proto"], "v6": conn["v6"]}
    if conn["proto"] == "tls":
        d.update(ver="%04x" % conn["ver"], suite=T.SUITES[conn["suite"]].name, etm=bool(conn.get("etm")),
                 resume=bool(conn.get("resume")), records=[[r["d"], r["n"]] + ([r["pad"]] if r.get("pad") else [])
                                                           for r in conn.get("recs", [])][:12],
                 seg=conn.get("tcp", {}).get("cutmode"), acts=conn.get("tcp", {}).get("acts"))
    elif conn["proto"] == "quic":
        q = conn.get("q", {})
        d.update(suite="%04x" % q.get("suite", 0), dcid=q.get("dcid_len"), scid_c=q.get("scid_c_len"),
                 scid_s=q.get("scid_s_len"), flights=len(q.get("script", [])))
    return d


def apply_segmentation(R, conn, policy=None, net=None, displace_client_first=False):
    """give a TLS connection explicit cut points (and optionally network actions) based on its real stream"""
    from .. import tlsconn
    flights, _, _ = tlsconn.build(conn)
    lens = {"c": 0, "s": 0}
    bounds = {"c": [], "s": []}
    for fl in flights:
        for d in "cs":
            for w in fl[d]:
                lens[d] += len(w.raw)
                bounds[d].append(lens[d])
    pol, cuts = gen.gen_cuts(R.fork("cuts"), conn, lens, bounds, policy)
    conn["tcp"]["cutmode"] = "explicit"
    conn["tcp"]["cuts"] = cuts
    conn["tcp"]["seg_policy"] = pol
    if net:
        units, _, _ = world.tcp_units(conn, flights)
        acts = {}
        for d in "cs":
            nseg = sum(len(u[d]) for u in units)
            acts[d] = gen.gen_net_acts(R.fork("net", d), nseg, net,
                                       protect_first=(d == "c" and not displace_client_first))
        conn["tcp"]["acts"] = acts
    return pol


def attribute_segments(segs, recs):
    """segs: [(payload, ts_us, pkt)] of ONE direction in output order; recs: truth app records of that direction in
    order (dicts with app_lo/app_hi).  -> list (one per segment) of lists of candidate record indices, or raises
    ValueError(class) when a segment straddles a record boundary or lies beyond the truth."""
    out = []
    pos = 0
    for payload, ts, pkt in segs:
        a, b = pos, pos + len(payload)
        cands = []
        if a == b:
            for i, r in enumerate(recs):
                if r["app_lo"] <= a <= r["app_hi"]:
                    cands.append(i)
        else:
            for i, r in enumerate(recs):
                if r["app_lo"] <= a and b <= r["app_hi"]:
                    cands.append(i)
                    break
            if not cands:
                raise ValueError("segment-straddles-record-boundary" if recs and b <= recs[-1]["app_hi"]
                                 else "segment-beyond-truth")
        out.append(cands)
        pos = b
    return out


def input_packets_of_record(tconn, r):
    """distinct captured packets (first copies and duplicates alike count once per distinct byte range) overlapping
    the wire range of truth record r; -> (count_distinct, set of timestamps incl. duplicates)"""
    rng = set()
    tss = set()
    for f in tconn["frames"]:
        if f["d"] == r["d"] and f["kept"] and f["lo"] < r["hi"] and f["hi"] > r["lo"]:
            rng.add((f["lo"], f["hi"]))
            tss.add(f["ts"])
    return len(rng), tss


def random_cli(R, conns, allow=("p", "m", "c", "a", "g", "d")):
    """random option combination that keeps every TLS/QUIC connection selected"""
    cli = {}
    ports = sorted(set(c["s"]["port"] for c in conns if c["s"]["port"] not in (443, 44330)))
    extra = list(ports)
    if "p" in allow and R.chance(40):
        extra += [R.range(1, 65535) for _ in range(R.range(1, 3))]
    if extra:
        cli["p"] = extra
    if "m" in allow and R.chance(40):
        k = R.range(0, 3)
        cli["m"] = ["%d:%d%s" % (R.choice([443, 44330] + ports + [R.range(1, 65535)]), R.range(1, 65535),
                                 "," if R.chance(30) else "") for _ in range(k)]
    for o, pct in (("c", 30), ("a", 30), ("g", 20)):
        if o in allow and R.chance(pct):
            cli[o] = True
    if "d" in allow and R.chance(20):
        cli["d"] = R.choice(["", "INFO", "DEBUG", "WARNING", "ERROR"])
        if R.chance(30):
            cli["f"] = R.sample(["session.py", "decryptor.py", "main.py", "quic_session.py", "key_derivator.py"], R.range(1, 2))
    return cli
