"""C07 - exported packets keep the endpoints, direction and capture time of their origin."""
from ..rng import Rng
from .. import gen, world, tlsref as T
from ..harness import Outcome
from .base import Prop, run_export, failure_class, Flows, describe_conn, attribute_segments, input_packets_of_record


class C07(Prop):
    id = "C07"
    level = "exploration"
    rule = ("healthy simulated worlds (TLS and QUIC connections, random MAC/IP/ports, IPv4/IPv6, segmentations making "
            "records span k packets, exact duplicates, reordering, timestamps with arbitrary sub-second parts, ties, tap "
            "clock steps); every output packet is traced back to the simulated connection and to the tap frames of the "
            "record/datagram it carries; non-trivial = at least one data packet was exported; distinct = spec digests")
    reach = ["ipv6", "record_spans_3_packets", "duplicate_segment", "timestamp_tie", "clock_step_back", "clock_step_fwd",
             "quic_datagram", "multi_conn", "coarse_clock", "quic_cross_direction_tie", "quic_client_address_change",
             "quic_first_seen_packet_from_server", "container_with_other_blocks",
             "same_ip_pair_other_macs", "metadata_records_oriented", "client_alert_with_a"]

    def plan(self, tier):
        p = super().plan(tier)
        if tier == "quick":
            p["count"] = 1500
        return p

    def gen(self, seed, idx, tier):
        R = Rng(seed, "C07")
        cfg = {"records_max": 10, "len_max": 5000, "isn_wrap": False, "seg_pct": 85,
               "net": {"delay": 25, "lost_before": 10, "dup": 40, "dup_rto": 20, "dup_late": 10, "dup_merge": 25, "dup_half": 10,
                       "_D": 4}, "net_pct": 50,
               "quic_pct": 35, "quic": {"migrate_pct": 25, "retry_pct": 30}}
        spec = gen.gen_mixed_world(R.fork("world"), cfg)
        spec["prop"] = "C07"
        tap = spec["tap"]
        if R.chance(35):
            ex = world.expand(spec)
            n = len(ex["taplog"])
            steps = []
            for _ in range(R.range(1, 3)):
                steps.append([R.below(max(1, n)), R.choice([-1, 1]) * R.choice([1, 17, 1000, 999999, 3600000000, 86400000000])])
            tap["steps"] = steps
        retry = [c for c in spec["conns"] if c["proto"] == "quic" and c["q"].get("retry") and not c["q"].get("zero_rtt")]
        if retry and R.chance(50):
            # the capture starts right behind the client's first Initial of a connection that goes through Retry:
            # the first packet TLExport sees of it comes from the server, the connection is still decryptable
            ex = world.expand(spec)
            first = [e["i"] for e in ex["taplog"] if e["conn"] == retry[0]["id"]]
            ndg = 0
            for e in ex["taplog"]:
                if e["conn"] == retry[0]["id"] and e["d"] == "s":
                    break
                if e["conn"] == retry[0]["id"]:
                    ndg += 1
            spec["faults"] = [{"k": "drop", "i": i} for i in first[:ndg]]
            spec["late_retry"] = True
        if R.chance(25):
            tap["res_us"] = R.choice([10, 1000, 1000, 10000])
            for c in spec["conns"]:
                if c["proto"] == "quic":
                    c["unique_ts"] = "per_direction"
        SH = R.fork("samehosts")
        tl0 = [c for c in spec["conns"] if c["proto"] in ("tls", "quic")]
        if tl0 and SH.chance(20):
            # a further connection between the same two IP addresses whose frames carry other MAC addresses (another
            # router / interface on the path): link-layer addresses belong to the connection, not to the IP pair
            a = SH.choice(tl0)
            used = set((c["c"]["ip"], c["c"]["port"], c["s"]["ip"], c["s"]["port"]) for c in spec["conns"])
            k = max(c["id"] for c in spec["conns"]) + 1
            try:
                if a["proto"] == "tls":
                    b = gen.gen_tls_conn(SH.fork("c"), k, {"records_max": 5, "len_max": 2000, "isn_wrap": False,
                                                               "v6_pct": 100 if a["v6"] else 0}, used,
                                         client_ip=a["c"]["ip"], server_ip=a["s"]["ip"], server_port=a["s"]["port"])
                else:
                    from .. import quicpeer
                    b = quicpeer.gen_quic_conn(SH.fork("q"), k, {"small": True, "v6_pct": 100 if a["v6"] else 0}, used,
                                               client_ip=a["c"]["ip"], server_ip=a["s"]["ip"], server_port=a["s"]["port"])
                if b["v6"] == a["v6"]:
                    spec["conns"].append(b)
                    spec["same_ips_other_macs"] = True
            except (ValueError, RuntimeError):
                pass
        if R.fork("meta").chance(15):
            # with -a handshake, change-cipher-spec and alert records are exported as captured: they, too, travel from
            # their original sender to their original receiver
            spec["cli"] = {"a": True}
        CT = R.fork("container")
        if CT.chance(20):
            # other blocks between the packets, among them descriptions of further (unused) interfaces with their own
            # timestamp resolution and offset; finer resolutions of the capture interface itself
            spec["container"] = CT.choice([{"blocks_seed": CT.bits(30)}, {"blocks_seed": CT.bits(30), "tsresol": ["dec", 9]},
                                           {"blocks_seed": CT.bits(30), "be": True, "epb_opts": True},
                                           {"tsresol": ["bin", 30]}])
        return spec

    def check(self, lane, spec):
        out = Outcome()
        ex = world.expand(spec)
        out.sim_time_ns = ex["stats"]["sim_time_ns"]
        res = run_export(lane, spec, ex, out)
        truth = ex["truth"]
        out.sample = {"seed": spec.get("seed"), "conns": [describe_conn(c) for c in spec["conns"]][:3],
                      "tap": spec.get("tap")}
        self.reach_probes(spec, ex, out)
        if spec.get("container"):
            out.count("reach:container_with_other_blocks")
        if spec.get("same_ips_other_macs"):
            out.count("reach:same_ip_pair_other_macs")
        if failure_class(res):
            out.count("run_failed")     # C01/C02/C03 report failures
            return out
        try:
            fl = Flows(spec, truth, res.out)
        except Exception:
            out.count("output_unreadable")
            return out
        # every output packet must belong to one simulated connection, with that connection's addresses
        for key in fl.extra:
            proto, v6, eps = key
            out.violate("endpoints-preserved", "packet-with-foreign-endpoints",
                        "output flow %s %s does not match any simulated connection" % (
                            "tcp" if proto == 6 else "udp", [(e[0].hex(), e[1]) for e in eps]))
        for c in truth["conns"]:
            if c["id"] not in fl.by_conn:
                continue
            obj, cep, sep = fl.by_conn[c["id"]]
            macs = {cep: bytes.fromhex(c["c"]["mac"]), sep: bytes.fromhex(c["s"]["mac"])}
            pk = obj.pkts if c["proto"] == "tls" else obj
            for p in pk:
                s_ = (p["ip_src"], p["sport"])
                d_ = (p["ip_dst"], p["dport"])
                if p["eth_src"] != macs[s_] or p["eth_dst"] != macs[d_]:
                    out.violate("endpoints-preserved", "mac-address-wrong",
                                "conn %d pkt %d: eth %s>%s expected %s>%s" % (c["id"], p["idx"], p["eth_src"].hex(),
                                                                             p["eth_dst"].hex(), macs[s_].hex(), macs[d_].hex()))
                    break
            if c["proto"] == "tls" and spec.get("cli", {}).get("a"):
                self.check_tls_metadata_orientation(out, c, obj, cep, sep)
            elif c["proto"] == "tls":
                self.check_tls(out, spec, c, obj, cep, sep)
            elif c["proto"] == "quic":
                self.check_quic(out, spec, c, obj, cep, sep)
        return out

    def check_tls_metadata_orientation(self, out, c, conv, cep, sep):
        """-a: an exported packet whose payload is, byte for byte, one record of the connection that only one side sent
        (hello, encrypted alert, encrypted handshake record) must travel from that side"""
        sent_by = {}
        for r in c["records"]:
            sent_by.setdefault(bytes(r["raw"]), set()).add(r["d"])
        all_ts = set(f["ts"] for f in c["frames"] if f["kept"])
        n = 0
        for (s_, payload, ts, pk) in conv.segs:
            ds = sent_by.get(bytes(payload))
            if not ds or len(ds) != 1:
                continue
            n += 1
            d = next(iter(ds))
            if s_ != (cep if d == "c" else sep):
                out.violate("direction-preserved", "metadata-record-in-wrong-direction",
                            "conn %d out pkt %d: record %s... sent by %s is exported from the other side" % (
                                c["id"], pk["idx"], bytes(payload)[:6].hex(), "client" if d == "c" else "server"))
                break
        if n:
            out.nontrivial = True
            out.count("reach:metadata_records_oriented", n)
        if any(r["kind"] == "alert" and r["d"] == "c" for r in c["records"]):
            out.count("reach:client_alert_with_a")

    def check_tls(self, out, spec, c, conv, cep, sep):
        all_ts = set(f["ts"] for f in c["frames"] if f["kept"])
        first_rec_ts = None
        ok_streams = True
        for d, e_ in (("c", cep), ("s", sep)):
            recs = [r for r in c["records"] if r["d"] == d and r["kind"] == "app"]
            segs = [(p, ts, pk) for (s_, p, ts, pk) in conv.segs if s_ == e_]
            stream = b"".join(p for p, _, _ in segs)
            if not c["app"][d].startswith(stream):
                ok_streams = False
                out.count("stream_not_prefix_of_truth")
                # direction is still judged: bytes of one side must not travel in the other direction
                od = "s" if d == "c" else "c"
                if stream and c["app"][od].startswith(stream) and len(stream) > 8:
                    out.violate("direction-preserved", "stream-in-wrong-direction", "conn %d dir %s" % (c["id"], d))
                continue
            if stream:
                out.nontrivial = True
            try:
                att = attribute_segments(segs, recs)
            except ValueError:
                out.count("segment_attribution_failed")   # C06 reports re-splitting problems
                continue
            for cands, (p, ts, pk) in zip(att, segs):
                allowed = set()
                for i in cands:
                    allowed |= input_packets_of_record(c, recs[i])[1]
                if not self.ts_ok(ts, allowed, spec):
                    out.violate("timestamp-from-carrying-packet", "timestamp-not-from-record-packets",
                                "conn %d dir %s out pkt %d len %d: ts %d not among %s" % (
                                    c["id"], d, pk["idx"], len(p), ts, sorted(allowed)[:8]))
                    break
        if not ok_streams:
            return
        # ACK companions: empty packets in the opposite direction share the time of a packet of the record before them
        last_allowed = None
        order = []
        pos = {cep: 0, sep: 0}
        recs_by = {e_: [r for r in c["records"] if r["d"] == d and r["kind"] == "app"] for d, e_ in (("c", cep), ("s", sep))}
        for p in conv.pkts[3:]:
            s_ = (p["ip_src"], p["sport"])
            if p["payload"] or p["flags"] & 8:
                a = pos[s_]
                b = a + len(p["payload"])
                al = set()
                for r in recs_by[s_]:
                    if r["app_lo"] <= a and b <= r["app_hi"]:
                        al |= input_packets_of_record(c, r)[1]
                last_allowed = al
                pos[s_] = b
            else:
                if last_allowed is not None and not self.ts_ok(p["ts_us"], last_allowed, spec):
                    out.violate("timestamp-from-carrying-packet", "ack-timestamp-not-from-record-packets",
                                "conn %d out pkt %d ts %d not among %s" % (c["id"], p["idx"], p["ts_us"], sorted(last_allowed)[:8]))
                    break
        # synthetic handshake: time of the first exported record
        if conv.hs_ts and conv.segs:
            first = None
            for p in conv.pkts[3:]:
                first = p
                break
            allowed = set()
            # the first record handed to the output (possibly empty, then it has no data packet of its own)
            firsts = []
            for d in "cs":
                rr = [r for r in c["records"] if r["d"] == d and r["kind"] == "app"]
                if rr:
                    firsts.append(rr[0])
                    # leading empty records export no packet: the following record may be the first visible one
                    for r in rr:
                        firsts.append(r)
                        if r["app_hi"] > r["app_lo"]:
                            break
            for r in firsts:
                allowed |= input_packets_of_record(c, r)[1]
            if first is not None:
                allowed.add(first["ts_us"])
            for t in conv.hs_ts:
                if not self.ts_ok(t, allowed, spec):
                    out.violate("handshake-time-of-first-record", "handshake-timestamp-wrong",
                                "conn %d: synthetic handshake ts %s, first exported packet ts %s" % (
                                    c["id"], conv.hs_ts, first["ts_us"] if first else None))
                    break

    def check_quic(self, out, spec, c, pkts, cep, sep):
        exp = c.get("expected", [])
        want = {}
        for e in exp:
            want.setdefault((e["d"], e["payload"]), set()).add(e["ts"])
        for p in pkts:
            if not p["payload"]:
                continue
            out.nontrivial = True
            d = "c" if (p["ip_src"], p["sport"]) == cep else "s"
            key = (d, bytes(p["payload"]))
            od = "s" if d == "c" else "c"
            if key not in want:
                if (od, bytes(p["payload"])) in want:
                    out.violate("direction-preserved", "datagram-in-wrong-direction",
                                "conn %d out pkt %d" % (c["id"], p["idx"]))
                else:
                    out.count("quic_payload_not_in_truth")      # C02 reports content problems
                continue
            if not self.ts_ok(p["ts_us"], want[key], spec):
                out.violate("timestamp-from-carrying-packet", "datagram-timestamp-wrong",
                            "conn %d out pkt %d: ts %d, input datagram ts %s" % (c["id"], p["idx"], p["ts_us"],
                                                                                sorted(want[key])[:5]))

    def ts_ok(self, ts, allowed, spec):
        return ts in allowed

    def reach_probes(self, spec, ex, out):
        tss = [e["ts"] for e in ex["taplog"]]
        if len(set(tss)) < len(tss):
            out.count("reach:timestamp_tie")
        for st in spec.get("tap", {}).get("steps", []):
            out.count("reach:clock_step_back" if st[1] < 0 else "reach:clock_step_fwd")
            out.count("fault:clock_step")
        if spec.get("tap", {}).get("res_us", 1) > 1:
            out.count("reach:coarse_clock")
            for c in ex["truth"]["conns"]:
                if c["proto"] == "quic":
                    seen = {}
                    for f in c["frames"]:
                        if f["ts"] in seen and seen[f["ts"]] != f["d"]:
                            out.count("reach:quic_cross_direction_tie")
                        seen[f["ts"]] = f["d"]
        if len(spec["conns"]) > 1:
            out.count("reach:multi_conn")
        if spec.get("late_retry"):
            out.count("reach:quic_first_seen_packet_from_server")
        for conn, t in zip(spec["conns"], ex["truth"]["conns"]):
            if conn["v6"]:
                out.count("reach:ipv6")
            if conn["proto"] == "quic":
                out.count("reach:quic_datagram")
                if conn.get("c_mig"):
                    out.count("reach:quic_client_address_change")
                continue
            if any(f["dup"] for f in t["frames"]):
                out.count("reach:duplicate_segment")
            for r in t["records"]:
                if r["kind"] == "app" and input_packets_of_record(t, r)[0] >= 3:
                    out.count("reach:record_spans_3_packets")
                    break


PROP = C07()
