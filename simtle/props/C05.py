"""C05 - export is independent of TCP segmentation, retransmission and reordering."""
import copy
import hashlib

from ..rng import Rng
from .. import gen, world, tlsref as T
from ..harness import Outcome
from .base import Prop, run_export, failure_class, failure_detail, Flows, stream_mismatch_class, describe_conn, \
    apply_segmentation

NET = {"delay": 40, "early": 30, "lost_before": 15, "dup": 30, "dup_rto": 20, "dup_late": 10, "dup_merge": 25, "dup_half": 20, "keepalive": 150, "_D": 4}


def first_displaced(conn, ex):
    """True if the first data segment of a direction does not arrive first (known residual, see DESIGN 6.3 #4)"""
    t = ex["truth"]["conns"][0]
    for d in "cs":
        fr = [f for f in t["frames"] if f["d"] == d]
        if fr and fr[0]["lo"] != 0:
            return True
    return False


class C05(Prop):
    id = "C05"
    level = "exploration"
    rule = ("scenario = one simulated TLS connection (byte streams fixed by its sub-seed) delivered under K network plans: "
            "cut points (record-aligned, MSS incl. 1 byte, random, +-1 around record ends, inside the 5-byte header, "
            "coalescing), exact duplicate segments (fast retransmit, RTO, late after the peer answered), bounded "
            "displacement D<=4 within a direction, ISN incl. wrap past 2^32; a deterministic prefix of the index space "
            "sweeps ALL cut sets of a short 2-record client stream at the record-handler level; non-trivial = the plan "
            "differs from the canonical plan (one record = one segment, in order) and application data was sent; "
            "distinct = distinct (stream digest, delivery plan digest)")
    reach = ["dup_first_segment_of_record", "dup_after_later_data", "reorder_across_record_boundary", "seq_wrap_in_record",
             "seq_wrap_in_conn", "header_split", "one_byte_segments", "record_spans_3_segments", "dup_late", "sweep",
             "with_checksum_option", "retransmission_with_other_boundaries",
             "bulk_direction_over_64k", "duplicate_after_more_than_1024_segments", "keep_alive_probe_before_more_data",
             "seq_wrap_exactly_on_record_boundary"]
    exhaustive_note = "all 2^10 (quick) / 2^12 (thorough) cut sets of a 2-record client stream of 11 / 13 bytes at the record-handler level"

    def sweep_bits(self, tier):
        return 10 if tier == "quick" else 12

    def plan(self, tier):
        p = super().plan(tier)
        if tier == "quick":
            p["count"] = (1 << 10) + 260
            p["budget_s"] = 170
        return p

    def gen(self, seed, idx, tier):
        R = Rng(seed, "C05")
        nb = self.sweep_bits(tier)
        if idx < (1 << nb):
            # systematic warm-up: key-less records the session frames but does not decrypt
            body2 = b"" if nb == 10 else b"\xaa\xbb"
            stream = bytes([0x16, 3, 3, 0, 1, 0x0b]) + bytes([0x17, 3, 3, 0, len(body2)]) + body2
            cuts = [i + 1 for i in range(nb) if (idx >> i) & 1]
            used = set()
            c, s = gen.gen_endpoints(Rng(7, "sweep-ep"), False, used)
            conn = {"id": 0, "proto": "http", "sub": 1, "v6": False, "c": c, "s": s, "raw": [["c", stream.hex()]],
                    "tcp": {"isn_c": 1000, "isn_s": 5000, "ctl": False, "cutmode": "explicit",
                            "cuts": {"c": cuts, "s": []}},
                    "t": {"start_us": 0}, "pad_eth": False}
            return {"prop": "C05", "mode": "sweep", "conns": [conn], "tap": {"epoch_us": 1700000000000000, "res_us": 1},
                    "plans": []}
        cfg = {"records_max": 8, "len_max": 3000 if R.chance(80) else 16384, "isn_wrap": False}
        used = set()
        conn = gen.gen_tls_conn(R.fork("conn"), 0, cfg, used)
        if idx % 20 == 7:
            # bulk transfer: one direction carries 60-130 KiB in records of 12-16 KiB, so that more than 64 KiB can be
            # in flight / buffered (window scaling) before a hole is filled or a segment ends on a record boundary
            B = R.fork("bulk")
            d = B.choice("cs")
            big = [{"k": 0, "d": d, "n": B.range(12000, 16384)} for _ in range(B.range(5, 8))]
            at = B.range(1, len(conn["recs"])) if conn["recs"] else 0
            conn["recs"] = conn["recs"][:at] + big + conn["recs"][at:]
            for i, r in enumerate(conn["recs"]):
                r["k"] = i
            # the bulk records leave in one flight (no pause in which the receiver could have framed everything so far)
            conn["fl"] = [1] * at + [len(big)] + [1] * (len(conn["recs"]) - at - len(big))
            conn["bulk"] = True
        conn["tcp"]["ctl"] = R.chance(50)
        plans = []
        K = 6 if tier == "quick" else 12
        for k in range(K):
            P = R.fork("plan", k)
            c2 = copy.deepcopy(conn)
            pol = apply_segmentation(P, c2, net=NET if P.chance(80) else None, displace_client_first=True)
            tcp = c2["tcp"]
            plan = {"cutmode": "explicit", "cuts": tcp["cuts"], "acts": tcp.get("acts", {}), "seg_policy": pol}
            if P.chance(35):
                # ISN chosen so that the sequence space wraps inside the connection (often inside a record)
                from .. import tlsconn
                fl, _, _ = tlsconn.build(conn)
                for d in "cs":
                    n = sum(len(w.raw) for f in fl for w in f[d])
                    if n > 2 and P.chance(30):
                        # the wrap falls exactly on a record boundary: the next expected sequence number is 0 there
                        ends = []
                        acc = 0
                        for f_ in fl:
                            for w_ in f_[d]:
                                acc += len(w_.raw)
                                ends.append(acc)
                        b_ = P.choice(ends[:-1] or ends)
                        plan["isn_" + d] = ((1 << 32) - 1 - b_) & 0xFFFFFFFF
                        plan["wrap_on_record_boundary"] = True
                    elif n > 2 and P.chance(70):
                        plan["isn_" + d] = ((1 << 32) - 1 - P.range(1, n - 1)) & 0xFFFFFFFF
                    else:
                        plan["isn_" + d] = P.bits(32)
            plans.append(plan)
        if conn.get("bulk") and idx % 40 == 7:
            # aimed plan: the bulk flight is cut into 64 byte segments (well over a thousand); its first segment is lost
            # and captured only ~1100 segments later, and just before it a spurious exact retransmission of the second
            # segment arrives - duplicate suppression must still know a segment it saw more than a thousand segments ago
            from .. import tlsconn
            fl, _, _ = tlsconn.build(conn)
            c3 = copy.deepcopy(conn)
            d = [r["d"] for r in conn["recs"] if r["n"] >= 12000][0]
            n = sum(len(w.raw) for f in fl for w in f[d])
            c3["tcp"]["cutmode"] = "explicit"
            c3["tcp"]["cuts"] = {d: list(range(64, n, 64)), ("s" if d == "c" else "c"): []}
            units, _, _ = world.tcp_units(c3, fl)
            big = max(range(len(units)), key=lambda i: len(units[i][d]))
            if len(units[big][d]) > 1150:
                j0 = units[big][d][0]["seg"]
                plans.append({"cutmode": "explicit", "cuts": c3["tcp"]["cuts"], "seg_policy": "aimed-64-late-head",
                              "acts": {d: [[j0, "delay", 1100], [j0 + 1, "dup", 1098]]}})
                conn["aimed_late_head"] = True
        spec = {"prop": "C05", "mode": "plans", "conns": [conn], "tap": gen.gen_tap(R.fork("tap")), "plans": plans}
        if R.chance(20):
            # every simulated segment carries a correct checksum: -c must accept each of them, however the stream is cut
            # (odd and even lengths, one byte segments)
            spec["cli"] = {"c": True}
        return spec

    def primary_spec(self, spec):
        if spec.get("mode") == "sweep" or not spec.get("plans"):
            return spec
        return self.plan_spec(spec, spec["plans"][0])

    def plan_spec(self, spec, plan):
        s2 = copy.deepcopy(spec)
        tcp = s2["conns"][0]["tcp"]
        for k, v in plan.items():
            tcp[k] = copy.deepcopy(v)
        return s2

    def canonical_spec(self, spec):
        s2 = copy.deepcopy(spec)
        tcp = s2["conns"][0]["tcp"]
        tcp["cutmode"] = "record"
        tcp.pop("cuts", None)
        tcp["acts"] = {}
        tcp["isn_c"], tcp["isn_s"] = 1000, 5000
        return s2

    def neutralisers(self):
        def first_in_order(spec):
            # remove displacement of the client's first data segment (KF-1); the server side is NOT neutralised
            ch = False
            for plan in spec.get("plans", []):
                a = plan.get("acts", {}).get("c", [])
                b = [x for x in a if not ((x[0] == 0 and x[1] in ("delay", "lost_before")) or
                                          (x[1] == "early" and x[0] - x[2] <= 0))]
                if len(b) != len(a):
                    plan["acts"]["c"] = b
                    ch = True
            return spec if ch else None
        return {"client-first-segment-in-order": first_in_order}

    def preconditions(self):
        def tail_frames(spec):
            """KF-1's specific history: in some plan the client's first data segment is captured late AND the client
            bytes captured before it form a whole number of TLS records on their own (5-byte headers chain exactly)"""
            for plan in spec.get("plans", []):
                ex = world.expand(self.plan_spec(spec, plan))
                t = ex["truth"]["conns"][0]
                fr = [f for f in t["frames"] if f["d"] == "c" and f["kept"]]
                if not fr or fr[0]["lo"] == 0:
                    continue
                # bytes seen before the segment starting at offset 0, as one contiguous run starting at the first seen
                arrived = []
                for f in fr:
                    if f["lo"] == 0:
                        break
                    arrived.append((f["lo"], f["hi"]))
                # the session frames what it has after every arrival: judge every arrival prefix
                for k in range(1, len(arrived) + 1):
                    if self.frames_as_records(t["streams"]["c"], sorted(arrived[:k])):
                        return True
            return False
        return {"client-tail-frames-as-records": tail_frames}

    @staticmethod
    def frames_as_records(stream, early):
        lo, hi = early[0]
        for a, b in early[1:]:
            if a == hi:
                hi = b
        buf = stream[lo:hi]
        pos = 0
        while len(buf) - pos >= 5:
            pos += 5 + int.from_bytes(buf[pos + 3:pos + 5], "big")
            if pos == len(buf):
                return True
        # any prefix of the early run that frames exactly is enough for the session to consume it
        for cut in range(5, len(buf) + 1):
            pos = 0
            while cut - pos >= 5:
                pos += 5 + int.from_bytes(buf[pos + 3:pos + 5], "big")
                if pos == cut and any(h == lo + cut for _, h in early):
                    return True
                if pos > cut:
                    break
        return False

    def focus_spec(self, spec, viol):
        if viol.focus is not None and spec.get("plans") and viol.focus < len(spec["plans"]):
            spec["plans"] = [spec["plans"][viol.focus]]
            return spec
        return None

    def reduction_candidates(self, spec):
        plans = spec.get("plans", [])
        if len(plans) > 1:
            for k in range(len(plans)):
                c = copy.deepcopy(spec)
                c["plans"] = [plans[k]]
                yield "keep only plan %d" % k, c
        for k, pl in enumerate(plans):
            for key in ("isn_c", "isn_s"):
                if key in pl:
                    c = copy.deepcopy(spec)
                    del c["plans"][k][key]
                    yield "plan %d: default %s" % (k, key), c
            if any(pl.get("acts", {}).get(d) for d in "cs"):
                c = copy.deepcopy(spec)
                c["plans"][k]["acts"] = {}
                yield "plan %d: no actions" % k, c
                for d in "cs":
                    for a in range(len(pl.get("acts", {}).get(d, []))):
                        c = copy.deepcopy(spec)
                        del c["plans"][k]["acts"][d][a]
                        yield "plan %d: drop action %s%d" % (k, d, a), c
            for d in "cs":
                cl = pl.get("cuts", {}).get(d, [])
                if cl:
                    c = copy.deepcopy(spec)
                    c["plans"][k]["cuts"][d] = []
                    c["plans"][k]["acts"] = {}
                    yield "plan %d: no cuts %s" % (k, d), c
                if len(cl) > 1:
                    for half in (cl[:len(cl) // 2], cl[len(cl) // 2:]):
                        c = copy.deepcopy(spec)
                        c["plans"][k]["cuts"][d] = half
                        c["plans"][k]["acts"] = {}
                        yield "plan %d: halve cuts %s" % (k, d), c

    def check_records(self, out, spec, ex, res, tag, focus=None):
        """in-process level: the record handler must see exactly the records of each byte stream, once, in order,
        each with the captured packets (first-seen copies) overlapping its byte range"""
        t = ex["truth"]["conns"][0]
        conn = spec["conns"][0]
        seen = {"c": [], "s": []}
        for p in res.probes or []:
            if p[0] == "rec":
                seen["s" if p[2] else "c"].append((bytes.fromhex(p[3]), p[4]))
        tcp = conn["tcp"]
        for d in "cs":
            want = [r for r in t["records"] if r["d"] == d]
            got = seen[d]
            wraw = [r["raw"] for r in want]
            graw = [g[0] for g in got]
            if graw != wraw:
                if wraw[:len(graw)] == graw:
                    cls = "records-missing"
                elif len(graw) > len(wraw) and graw[:len(wraw)] == wraw:
                    cls = "records-extra"
                elif sorted(graw) == sorted(wraw):
                    cls = "records-reordered"
                else:
                    cls = "records-wrong"
                out.violate("record-handler-sees-stream-records", cls,
                            "%s dir %s: handler saw %d records, stream has %d; plan %s" % (tag, d, len(graw), len(wraw), tag),
                            focus=focus)
                continue
            isn = tcp.get("isn_" + d, 1000 if d == "c" else 5000)
            first = {}
            for f in t["frames"]:
                # a later segment with a first sequence number seen before is a retransmission (also when it was cut
                # differently): the copy seen first stands for it
                if f.get("tail"):
                    continue        # a keep-alive probe repeats one byte that was captured (and framed) before
                if f["d"] == d and f["kept"] and f["lo"] not in first:
                    first[f["lo"]] = f
            for r, (_, md) in zip(want, got):
                exp = sorted((f["lo"], f["hi"]) for f in first.values() if f["lo"] < r["hi"] and f["hi"] > r["lo"])
                exp_md = [((isn + 1 + lo) & 0xFFFFFFFF, hi - lo) for lo, hi in exp]
                got_md = [(m[1], m[2]) for m in md] if isinstance(md, list) else md
                if got_md != exp_md:
                    out.violate("record-metadata-is-overlapping-packets", "metadata-wrong",
                                "%s dir %s record at %d..%d: metadata %s expected %s" % (tag, d, r["lo"], r["hi"],
                                                                                        str(got_md)[:200], str(exp_md)[:200]),
                                focus=focus)
                    break

    def check(self, lane, spec):
        out = Outcome()
        if spec.get("mode") == "sweep":
            ex = world.expand(spec)
            out.sim_time_ns += ex["stats"]["sim_time_ns"]
            res = run_export(lane, spec, ex, out, probes=["records"])
            out.count("reach:sweep")
            out.nontrivial = True
            out.item("sweep:%s" % spec["conns"][0]["tcp"]["cuts"]["c"])
            out.sample = {"mode": "sweep", "cuts": spec["conns"][0]["tcp"]["cuts"]["c"]}
            fc = failure_class(res)
            if fc:
                out.violate("no-failure", fc, failure_detail(res))
                return out
            self.check_records(out, spec, ex, res, "sweep")
            return out
        base_spec = self.canonical_spec(spec)
        ex0 = world.expand(base_spec)
        res0 = run_export(lane, base_spec, ex0, out)
        truth = ex0["truth"]["conns"][0]
        fc = failure_class(res0)
        if fc:
            out.count("baseline_failed")
            return out       # a failing canonical run is C01's business
        try:
            b = Flows(base_spec, ex0["truth"], res0.out).tcp_streams(0)
        except Exception:
            out.count("baseline_unreadable")
            return out
        baseline_ok = (b == truth["app"])
        if not baseline_ok:
            out.count("baseline_differs_from_truth")
        conn = spec["conns"][0]
        for k, plan in enumerate(spec.get("plans", [])):
            if lane.expired():
                out.count("enumeration_truncated_by_budget")
                break
            ps = self.plan_spec(spec, plan)
            ex = world.expand(ps)
            out.sim_time_ns += ex["stats"]["sim_time_ns"]
            res = run_export(lane, ps, ex, out, probes=["records"])
            self.probes(out, ps, ex, plan)
            tag = "plan %d (%s, acts %s, isn %s/%s)" % (k, plan.get("seg_policy"), str(plan.get("acts"))[:120],
                                                         plan.get("isn_c"), plan.get("isn_s"))
            fc = failure_class(res)
            if fc:
                out.violate("no-failure", fc, tag + "\n" + failure_detail(res), focus=k)
                continue
            try:
                g = Flows(ps, ex["truth"], res.out).tcp_streams(0)
            except Exception as e:
                out.violate("output-readable", "unreadable:%s" % getattr(e, "rule", type(e).__name__), tag, focus=k)
                continue
            for d in "cs":
                cls = stream_mismatch_class(g[d], b[d])
                if cls:
                    out.violate("plan-equals-canonical", cls, "%s dir %s: %d bytes vs canonical %d bytes (truth %d); %s" % (
                        tag, d, len(g[d]), len(b[d]), len(truth["app"][d]), describe_conn(conn)), focus=k)
            self.check_records(out, ps, ex, res, tag, focus=k)
            if truth["app"]["c"] or truth["app"]["s"]:
                out.nontrivial = True
            out.add("plans", world.interleave_signature(ex["taplog"]) + hashlib.sha256(str(plan).encode()).hexdigest()[:8])
            if truth["app"]["c"] or truth["app"]["s"]:
                out.item("plan:%s" % hashlib.sha256(str(plan).encode()).hexdigest()[:12])
        out.sample = {"seed": spec.get("seed"), "conn": describe_conn(conn),
                      "plans": [{"policy": p.get("seg_policy"), "acts": p.get("acts"), "isn_c": p.get("isn_c"),
                                 "ncuts": {d: len(p["cuts"][d]) for d in "cs"}} for p in spec.get("plans", [])[:3]]}
        return out

    def probes(self, out, spec, ex, plan):
        t = ex["truth"]["conns"][0]
        tcp = spec["conns"][0]["tcp"]
        fr = t["frames"]
        out.add("seg_policy", plan.get("seg_policy"))
        if spec["conns"][0].get("bulk"):
            out.count("reach:bulk_direction_over_64k")
        if plan.get("seg_policy") == "aimed-64-late-head":
            out.count("reach:duplicate_after_more_than_1024_segments")
        if spec.get("cli", {}).get("c"):
            out.count("reach:with_checksum_option")
        if any(a[1] in ("dup_merge", "dup_half") for d in "cs" for a in (plan.get("acts") or {}).get(d, [])):
            out.count("reach:retransmission_with_other_boundaries")
        if plan.get("wrap_on_record_boundary"):
            out.count("reach:seq_wrap_exactly_on_record_boundary")
        if any(f.get("tail") and f["kept"] for f in fr):
            out.count("reach:keep_alive_probe_before_more_data")
        for d in "cs":
            fd = [f for f in fr if f["d"] == d]
            isn = tcp.get("isn_" + d, 0)
            n = len(t["streams"][d])
            if isn + 1 + n > (1 << 32):
                out.count("reach:seq_wrap_in_conn")
                w = (1 << 32) - isn - 1
                if any(r["d"] == d and r["lo"] < w < r["hi"] for r in t["records"]):
                    out.count("reach:seq_wrap_in_record")
            maxhi = 0
            for f in fd:
                if f["dup"]:
                    out.count("fault:duplicate_segment")
                    if any(r["d"] == d and r["lo"] == f["lo"] for r in t["records"]):
                        out.count("reach:dup_first_segment_of_record")
                    if maxhi > f["hi"]:
                        out.count("reach:dup_after_later_data")
                elif f["lo"] < maxhi:
                    out.count("fault:reordered_segment")
                    if any(r["d"] == d and f["hi"] <= r["lo"] < maxhi for r in t["records"]) or \
                            any(r["d"] == d and f["lo"] < r["hi"] <= maxhi for r in t["records"]):
                        out.count("reach:reorder_across_record_boundary")
                maxhi = max(maxhi, f["hi"])
            for r in t["records"]:
                if r["d"] != d:
                    continue
                if any(f["lo"] < r["lo"] + 5 and f["hi"] > r["lo"] and (f["hi"] < r["lo"] + 5 or f["lo"] > r["lo"])
                       for f in fd):
                    out.count("reach:header_split")
                    break
        if any(f["hi"] - f["lo"] == 1 for f in fr):
            out.count("reach:one_byte_segments")
        for a in plan.get("acts", {}).values():
            for x in a:
                out.count("fault:net_" + x[1])
                if x[1] == "dup_late":
                    out.count("reach:dup_late")
        for r in t["records"]:
            n = sum(1 for f in fr if f["d"] == r["d"] and not f["dup"] and f["lo"] < r["hi"] and f["hi"] > r["lo"])
            if n >= 3:
                out.count("reach:record_spans_3_segments")
                break


PROP = C05()
