"""C18 - the export is a deterministic function of capture, secrets and options."""
import hashlib

from ..rng import Rng
from .. import gen, world, sut as SUT
from ..harness import Outcome
from .base import Prop, run_export, failure_class, failure_detail, describe_conn, random_cli


def sha(b):
    return hashlib.sha256(b).hexdigest() if b is not None else None


def quic_dgram_len(conn, dg):
    from .. import quicpeer
    _, info = quicpeer.build_units(conn)
    return info["dgrams"][dg]


class C18(Prop):
    id = "C18"
    level = "exploration"
    rule = ("the guidance's determinism self-test turned on the system under test: the same simulated world (TLS + QUIC, "
            "zero-length and multiple connection ids, random options) is exported by fork servers started with PYTHONHASHSEED "
            "0,1,2,3, from different working directories and environments (LANG, TZ, COLUMNS, HOME), twice in one process, "
            "in one process after a different world was processed first, and (sampled) by a real `python -m tlexport.main` "
            "subprocess; oracle: sha256 of all output files equal; one evaluation = one export; non-trivial = the reference "
            "export contains packets; distinct = spec digests")
    reach = ["hashseed_variants", "cwd_env_variants", "twice_in_process", "after_other_world", "cli_subprocess",
             "quic_world", "quic_zero_len_cid", "output_nonempty", "output_path_reused",
             "sslkeylogfile_in_environment_without_s", "quic_connection_ids_of_different_lengths",
             "earlier_run_with_other_port_map", "cli_subprocess_optimised", "after_aborted_run",
             "earlier_run_really_aborted", "client_port_also_a_server_port", "quic_datagram_shorter_than_hp_sample"]

    def plan(self, tier):
        p = super().plan(tier)
        if tier == "quick":
            p["count"] = 96
        return p

    def gen(self, seed, idx, tier):
        R = Rng(seed, "C18")
        cfg = {"records_max": 5, "len_max": 1500, "isn_wrap": False, "seg_pct": 60, "quic_pct": 50,
               "quic": {"small": True, "zero_cid_pct": 40, "ncid_pct": 50, "hs_dup_pct": 40, "long_ch_pct": 40,
                        "crypto_reorder_pct": 50, "net": {"dup": 120, "delay": 40, "_D": 2}}}
        spec = gen.gen_mixed_world(R.fork("world"), cfg, nconn=R.range(1, 3), with_noise=R.chance(30))
        spec["prop"] = "C18"
        spec["cli"] = random_cli(R.fork("cli"), [c for c in spec["conns"] if c["proto"] in ("tls", "quic")],
                                 allow=("p", "m", "a", "c"))
        BP = R.fork("bothports")
        tl = [c for c in spec["conns"] if c["proto"] == "tls"]
        if tl and BP.chance(25):
            # both ports of a connection are "server ports" (the client's ephemeral port is listed with -p): which side is
            # the server must not depend on anything but the capture and the options
            v = BP.choice(tl)
            spec["cli"].setdefault("p", [])
            spec["cli"]["p"] = list(spec["cli"]["p"]) + [v["c"]["port"]]
            spec["client_port_listed"] = True
        RT = R.fork("runt")
        qs = [c for c in spec["conns"] if c["proto"] == "quic"]
        if qs and RT.chance(30):
            # one 1-RTT datagram of a QUIC connection arrives cut down to fewer bytes than a header protection sample
            ex_ = world.expand(spec)
            v = RT.choice(qs)
            t_ = [x for x in ex_["truth"]["conns"] if x["id"] == v["id"]][0]
            cand = [f for f in t_["frames"] if t_["dmeta"][f["dg"]]["pk"] and t_["dmeta"][f["dg"]]["pk"][0]["kind"] == "1rtt"]
            if cand:
                f = RT.choice(cand)
                ln = len(quic_dgram_len(v, f["dg"]))
                spec["faults"] = [{"k": "shorten", "i": f["i"], "n": max(1, ln - RT.range(3, 20))}]
                spec["runt_datagram"] = True
        if R.chance(50):
            other = gen.gen_mixed_world(R.fork("other"), cfg, nconn=R.range(1, 2))
        else:
            # a world of the same shape (same number of key-log lines) but different randoms, secrets and data
            import copy
            other = {"conns": copy.deepcopy(spec["conns"]), "tap": gen.gen_tap(R.fork("othertap")), "policy": spec.get("policy")}
            for c in other["conns"]:
                c["sub"] = R.fork("othersub", c["id"]).bits(63)
                if c.get("master_seed") is not None:
                    c["master_seed"] = c["master_seed"] + 1
        other["cli"] = random_cli(R.fork("othercli"), [c for c in spec["conns"] if c["proto"] in ("tls", "quic")],
                                  allow=("p", "m"))
        if R.chance(60):
            # the earlier run maps this world's server ports explicitly (-m a:b); this run must not inherit the pairs
            ports = sorted(set(c["s"]["port"] for c in spec["conns"] if c["proto"] in ("tls", "quic")))
            other["cli"]["m"] = ["%d:%d" % (p, R.range(1024, 65000)) for p in ports]
            if R.chance(50) and not spec["cli"].get("m"):
                spec["cli"]["m"] = [] if R.chance(50) else ["%d:%d" % (R.range(1, 1023), R.range(1024, 65000))]
        spec["other"] = other
        if R.chance(50):
            spec["keychan"] = {"mode": "file", "early_lines": R.bits(30)}
        elif R.chance(60):
            # the secrets travel inside the capture (decryption secrets blocks), no -s option
            spec["keychan"] = {"mode": "dsb", "perm_seed": R.bits(30)}
        spec["cli_sub"] = (idx % 4 == 0)
        if spec["cli_sub"]:
            # the fresh-interpreter sample maps a server port of the world explicitly
            ports = sorted(set(c["s"]["port"] for c in spec["conns"] if c["proto"] in ("tls", "quic")))
            if ports:
                spec["cli"]["m"] = ["%d:%d" % (R.choice(ports), R.range(1024, 65000))]
        spec["hs2"] = [R.range(4, 1 << 31), R.range(4, 1 << 31)]
        return spec

    def check(self, lane, spec):
        out = Outcome()
        ex = world.expand(spec)
        out.sim_time_ns = ex["stats"]["sim_time_ns"]
        out.sample = {"seed": spec.get("seed"), "cli": spec.get("cli"), "conns": [describe_conn(c) for c in spec["conns"]][:3]}
        ref = lane.sut(0).run(ex["capture"], ex["keylog"], ex["argv"])[0]
        out.exports += 1
        fc = failure_class(ref)
        if fc:
            out.count("reference_run_failed")
            return out
        h0 = sha(ref.out)
        if len(ref.out) > 200:
            out.nontrivial = True
            out.count("reach:output_nonempty")
        if spec.get("client_port_listed"):
            out.count("reach:client_port_also_a_server_port")
        if spec.get("runt_datagram"):
            out.count("reach:quic_datagram_shorter_than_hp_sample")
        for c in spec["conns"]:
            if c["proto"] == "quic":
                out.count("reach:quic_world")
                if c.get("q", {}).get("scid_c_len") == 0 or c.get("q", {}).get("scid_s_len") == 0:
                    out.count("reach:quic_zero_len_cid")
                if c["q"].get("ncid_len") and (c["q"]["ncid"]["s"] or c["q"]["ncid"]["c"]):
                    out.count("reach:quic_connection_ids_of_different_lengths")

        def judge(name, res):
            f = failure_class(res)
            if f:
                out.violate("repeated-run-does-not-fail", "%s:%s" % (name, f), failure_detail(res))
            elif sha(res.out) != h0:
                out.violate("output-identical-across-runs", "differs:" + name,
                            "%s: %d bytes vs reference %d bytes" % (name, len(res.out), len(ref.out)))

        for h in (1, 2, 3):
            r = lane.sut(h).run(ex["capture"], ex["keylog"], ex["argv"])[0]
            out.exports += 1
            out.count("reach:hashseed_variants")
            judge("hashseed-%d" % h, r)
        envs = [({"LANG": "de_DE.UTF-8", "TZ": "Asia/Kolkata", "COLUMNS": "40", "HOME": "/nonexistent"}, "a/b/c"),
                ({"LANG": "C", "TZ": "America/St_Johns", "LC_ALL": "C", "PYTHONUTF8": "0"}, "x y")]
        for i, (env, cwd) in enumerate(envs):
            r = lane.sut(i).run(ex["capture"], ex["keylog"], ex["argv"], env=env, cwd_sub=cwd)[0]
            out.exports += 1
            out.count("reach:cwd_env_variants")
            judge("env-cwd-%d" % i, r)
        if ex["keylog"] is None:
            # no -s: the secrets are those of the capture, whatever key-log variable the user's shell exports
            import copy, os
            s2 = copy.deepcopy(spec)
            s2["keychan"] = {"mode": "file"}
            lines = world.expand(s2)["keylog"].decode().split("\n")
            stale = "\n".join(" ".join(p[:2] + [p[2][::-1]]) if len(p) == 3 else l for l, p in ((l, l.split(" ")) for l in lines))
            kp = os.path.join(lane.sut(0).base, "shell-keys.log")
            with open(kp, "w") as f:
                f.write(stale)
            for name, val in (("missing-file", "/nonexistent/sslkeys.log"), ("stale-lines", kp)):
                r = lane.sut(0).run(ex["capture"], None, ex["argv"], env={"SSLKEYLOGFILE": val, "HOME": "/root"})[0]
                out.exports += 1
                out.count("reach:sslkeylogfile_in_environment_without_s")
                judge("env-SSLKEYLOGFILE-" + name, r)
            os.unlink(kp)
        # the output path already holds a (longer) file from an earlier export
        r = lane.sut(0).run(ex["capture"], ex["keylog"], ex["argv"], pre_out=ref.out + b"\x00" * 64 + ref.out[:500])[0]
        out.exports += 1
        out.count("reach:output_path_reused")
        judge("output-path-holds-older-longer-file", r)
        # twice in one process
        rr = lane.sut(0).run(ex["capture"], ex["keylog"], ex["argv"],
                             extra_runs=[dict(capture=ex["capture"], keylog=ex["keylog"], argv_opts=ex["argv"])])
        out.exports += 2
        out.count("reach:twice_in_process")
        judge("in-process-first", rr[0])
        judge("in-process-second", rr[1])
        # after a different world in the same process
        ox = world.expand(spec["other"])
        rr = lane.sut(1).run(ox["capture"], ox["keylog"], ox["argv"],
                             extra_runs=[dict(capture=ex["capture"], keylog=ex["keylog"], argv_opts=ex["argv"])])
        out.exports += 2
        out.count("reach:after_other_world")
        if spec["other"].get("cli", {}).get("m") and spec.get("cli", {}).get("m") is not None:
            out.count("reach:earlier_run_with_other_port_map")
        if rr[0].exc is None and rr[0].exit == 0:
            judge("in-process-after-other-world", rr[1])
        else:
            out.count("other_world_failed")
        # after a run that ended abnormally in the same process (capture truncated inside its last block; -s naming a
        # missing file after -p ports were given): the next run starts from a clean state all the same
        aborted = [("truncated-capture", dict(capture=ox["capture"][:-7], keylog=ox["keylog"], argv_opts=ox["argv"])),
                   ("missing-key-log", dict(capture=ox["capture"], keylog=None, s_missing=True,
                                            argv_opts=["-p", "8443", str(spec["conns"][0]["c"]["port"])]))]
        for name, first in aborted:
            rr = lane.sut(0).run(first["capture"], first["keylog"], first["argv_opts"],
                                 extra_runs=[dict(capture=ex["capture"], keylog=ex["keylog"], argv_opts=ex["argv"])],
                                 **({"s_missing": True} if first.get("s_missing") else {}))
            out.exports += 2
            out.count("reach:after_aborted_run")
            if rr[0].exc is not None or rr[0].exit not in (0, None):
                out.count("reach:earlier_run_really_aborted")
            judge("in-process-after-aborted-run:" + name, rr[1])
        if spec.get("cli_sub"):
            for hs in spec.get("hs2", [5])[:1]:
                env_extra = {"TZ": "Pacific/Chatham"}
                if spec.get("seed", 0) % 2:
                    # python -O / PYTHONOPTIMIZE strips assert statements: nothing may depend on their side effects
                    env_extra["PYTHONOPTIMIZE"] = "1"
                    out.count("reach:cli_subprocess_optimised")
                code, data, log = SUT.run_cli_subprocess(ex["capture"], ex["keylog"], ex["argv"], hashseed=hs,
                                                         env_extra=env_extra)
                out.exports += 1
                out.count("reach:cli_subprocess")
                if code != 0 or data is None:
                    out.violate("repeated-run-does-not-fail", "cli-subprocess:exit-%s" % code, log[-800:])
                elif sha(data) != h0:
                    out.violate("output-identical-across-runs", "differs:cli-subprocess",
                                "python -m tlexport.main with PYTHONHASHSEED=%d: %d bytes vs %d" % (hs, len(data), len(ref.out)))
        return out


PROP = C18()
