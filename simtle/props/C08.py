"""C08 - cutting the capture at any point only removes a suffix of the export."""
import copy

from ..rng import Rng
from .. import gen, world
from ..harness import Outcome
from .base import Prop, run_export, failure_class, failure_detail, Flows, describe_conn, stream_mismatch_class


class C08(Prop):
    id = "C08"
    level = "fault_enumeration"
    rule = ("fault = the capture process stops after packet k: for a simulated world (TLS and QUIC, several connections, "
            "records spanning packets, coalesced flights, key changes, duplicates/reordering) EVERY cut position k=0..N is "
            "exported (quick: every position up to 48 packets, otherwise all positions of the first 24 and last 8 packets "
            "plus a stride) and compared with the export of the full capture and with the ground truth; one evaluation = "
            "one exported prefix; non-trivial = a prefix whose export differs from the full export; distinct = (scenario, k)")
    reach = ["cut_inside_handshake", "cut_inside_spanning_record", "cut_after_key_change", "cut_between_flights",
             "quic_world", "multi_conn", "four_tuple_reuse", "secrets_block_per_connection",
             "quic_zero_rtt_before_retry", "with_metadata_export", "crypto_retransmitted_with_other_boundaries"]

    def plan(self, tier):
        p = super().plan(tier)
        if tier == "quick":
            p["count"] = 70
            p["budget_s"] = 170
        return p

    def gen(self, seed, idx, tier):
        R = Rng(seed, "C08")
        cfg = {"records_max": 6, "len_max": 3000, "isn_wrap": False, "seg_pct": 80,
               "net": {"delay": 25, "lost_before": 40, "dup": 30, "dup_rto": 40, "dup_late": 40, "_D": 3}, "net_pct": 60,
               "quic_pct": 35, "quic": {"small": True, "migrate_pct": 20, "retry_pct": 30, "zero_rtt_pct": 40, "ch_retx_pct": 25, "close_pct": 60,
                                        "crypto_reorder_pct": 60, "long_ch_pct": 50,
                                        "net": {"delay": 200, "dup": 80, "lost": 30, "_D": 3}}}
        spec = gen.gen_mixed_world(R.fork("world"), cfg, nconn=R.weighted([(1, 50), (2, 35), (3, 15)]))
        spec["prop"] = "C08"
        spec["tier"] = tier
        tls = [c for c in spec["conns"] if c["proto"] == "tls"]
        if tls and R.chance(15):
            # a later connection re-uses the 4-tuple of an earlier one (client port reuse); whatever TLExport makes of the
            # second connection, cutting the capture must still only remove a suffix
            import copy
            a = tls[0]
            used = set()
            b = gen.gen_tls_conn(R.fork("reuse"), max(c["id"] for c in spec["conns"]) + 1,
                                 {"records_max": 4, "len_max": 800, "isn_wrap": False}, used)
            b["c"], b["s"], b["v6"] = copy.deepcopy(a["c"]), copy.deepcopy(a["s"]), a["v6"]
            b["tcp"]["ctl"] = True
            spec["conns"].append(b)
            spec["policy"] = "sequential"
            spec["reuse"] = True
        if R.fork("meta").chance(30):
            spec["cli"] = {"a": True}       # handshake material is part of the export, too
        if R.fork("keys").chance(25):
            # the secrets travel inside the capture, one block per connection in front of its first packet (merged capture):
            # a cut also cuts the later blocks away, a longer capture only ever adds secrets
            spec["keychan"] = {"mode": "dsb", "dsb_per_conn": True}
        return spec

    def positions(self, n, tier):
        if tier != "quick" or n <= 48:
            return list(range(0, n + 1))
        ks = set(range(0, 25)) | set(range(n - 8, n + 1)) | set(range(25, n - 8, max(1, (n - 33) // 12)))
        return sorted(ks)

    def streams_of(self, spec, ex, res):
        fl = Flows(spec, ex["truth"], res.out)
        out = {}
        for c in ex["truth"]["conns"]:
            if c["proto"] == "tls":
                out[c["id"]] = ("tcp", fl.tcp_streams(c["id"]))
            elif c["proto"] == "quic":
                out[c["id"]] = ("udp", [(d, p) for d, p, _ in fl.udp_seq(c["id"])])
        return out

    def check(self, lane, spec):
        out = Outcome()
        ex = world.expand(spec)
        out.sim_time_ns = ex["stats"]["sim_time_ns"]
        n = len(ex["taplog"])
        res = run_export(lane, spec, ex, out)
        out.sample = {"seed": spec.get("seed"), "frames": n, "conns": [describe_conn(c) for c in spec["conns"]][:3]}
        if failure_class(res):
            out.count("full_run_failed")
            # extending a capture must not take back what a shorter capture exported: the run on the full capture fails
            # although a run on one of its prefixes exports data
            for k in sorted(set([n - 1, n - 2, n - 3, (3 * n) // 4, n // 2]), reverse=True):
                if k < 1:
                    continue
                s2 = copy.deepcopy(spec)
                s2["faults"] = list(spec.get("faults", [])) + [{"k": "cut", "i": k}]
                exk = world.expand(s2)
                r = run_export(lane, s2, exk, out)
                if failure_class(r):
                    continue
                try:
                    part = self.streams_of(s2, exk, r)
                except Exception:
                    continue
                if any((v[1]["c"] or v[1]["s"]) if v[0] == "tcp" else v[1] for v in part.values()):
                    out.nontrivial = True
                    out.violate("extension-never-retracts", "full-capture-run-fails:" + failure_class(res),
                                "the capture cut after %d of %d packets exports data, the full capture fails\n%s" % (
                                    k, n, failure_detail(res)))
                    break
            return out
        try:
            full = self.streams_of(spec, ex, res)
        except Exception:
            out.count("full_output_unreadable")
            return out
        truth = {c["id"]: c for c in ex["truth"]["conns"]}
        if len(spec["conns"]) > 1:
            out.count("reach:multi_conn")
        if any(c["proto"] == "quic" for c in spec["conns"]):
            out.count("reach:quic_world")
        if spec.get("reuse"):
            out.count("reach:four_tuple_reuse")
        if spec.get("keychan", {}).get("dsb_per_conn"):
            out.count("reach:secrets_block_per_connection")
        if spec.get("cli", {}).get("a"):
            out.count("reach:with_metadata_export")
        if any(c["proto"] == "quic" and c["q"].get("ch_retx") for c in spec["conns"]):
            out.count("reach:crypto_retransmitted_with_other_boundaries")
        for c in spec["conns"]:
            if c["proto"] == "quic" and c["q"].get("retry") and c["q"].get("zero_rtt"):
                out.count("reach:quic_zero_rtt_before_retry")
        prev = None
        eps = {}
        for c in spec["conns"]:
            eps.setdefault((c["c"]["ip"], c["c"]["port"], c["s"]["ip"], c["s"]["port"]), []).append(c["id"])
        shared_tuple = set(i for ids in eps.values() if len(ids) > 1 for i in ids)   # 4-tuple reuse: one output flow
        for k in self.positions(n, spec.get("tier", "quick")):
            if lane.expired():
                out.count("enumeration_truncated_by_budget")
                break
            s2 = copy.deepcopy(spec)
            s2["faults"] = list(spec.get("faults", [])) + [{"k": "cut", "i": k}]
            if k >= n:
                s2["faults"] = list(spec.get("faults", []))
            exk = world.expand(s2)
            r = run_export(lane, s2, exk, out)
            out.count("fault:capture_cut")
            self.reach_probe(out, ex, k)
            fc = failure_class(r)
            if fc:
                out.violate("prefix-run-does-not-fail", fc, "cut after %d of %d packets\n%s" % (k, n, failure_detail(r)))
                continue
            try:
                part = self.streams_of(s2, exk, r)
            except Exception as e:
                out.violate("prefix-output-readable", "unreadable:%s" % getattr(e, "rule", type(e).__name__), "cut %d" % k)
                continue
            differs = False
            for cid, (kind, val) in part.items():
                fkind, fval = full[cid]
                t = truth[cid]
                if kind == "tcp":
                    for d in "cs":
                        if val[d] != fval[d]:
                            differs = True
                        if not fval[d].startswith(val[d]):
                            out.violate("prefix-export-is-prefix-of-full-export",
                                        stream_mismatch_class(val[d], fval[d][:len(val[d])]) or "longer-than-full",
                                        "cut after %d of %d packets: conn %d dir %s exports %d bytes, full export %d bytes" % (
                                            k, n, cid, d, len(val[d]), len(fval[d])))
                        elif cid not in shared_tuple and not spec.get("cli", {}).get("a") and \
                                not t["app"][d].startswith(val[d]):
                            # (with -a the stream also holds handshake material: judged against the full export only)
                            out.violate("prefix-export-is-prefix-of-truth", "wrong-or-invented-data",
                                        "cut after %d of %d packets: conn %d dir %s" % (k, n, cid, d))
                        if prev is not None and cid in prev and not val[d].startswith(prev[cid][1][d]) and \
                                fval[d].startswith(prev[cid][1][d]):
                            out.violate("extension-never-retracts", "retracted",
                                        "cut %d retracts data exported at the previous cut: conn %d dir %s" % (k, cid, d))
                else:
                    if val != fval:
                        differs = True
                    if fval[:len(val)] != val:
                        out.violate("prefix-export-is-prefix-of-full-export", "datagram-list-not-prefix",
                                    "cut after %d of %d packets: conn %d exports %d datagrams, full %d" % (
                                        k, n, cid, len(val), len(fval)))
                    if prev is not None and cid in prev and val[:len(prev[cid][1])] != prev[cid][1] and \
                            fval[:len(prev[cid][1])] == prev[cid][1]:
                        out.violate("extension-never-retracts", "retracted", "cut %d conn %d" % (k, cid))
            if differs:
                out.nontrivial = True
                out.add("cuts", "%s:%d" % (spec.get("seed"), k))
                out.item("cut:%d" % k)
            prev = part
        out.digest = None
        return out

    def reach_probe(self, out, ex, k):
        tl = ex["taplog"]
        if k <= 0 or k >= len(tl):
            return
        e0, e1 = tl[k - 1], tl[k]
        for c in ex["truth"]["conns"]:
            if c["proto"] != "tls":
                continue
            if e0["conn"] == c["id"] and "lo" in e0:
                for r in c["records"]:
                    if r["d"] == e0["d"] and r["lo"] < e0["hi"] < r["hi"]:
                        out.count("reach:cut_inside_spanning_record" if r["kind"] == "app" else "reach:cut_inside_handshake")
                        break
                for r in c["records"]:
                    if r["d"] == e0["d"] and r["hi"] == e0["hi"] and r["kind"] in ("ccs", "fin", "ehs"):
                        out.count("reach:cut_after_key_change")
                        break
        if e0["conn"] == e1["conn"] and e0["d"] != e1["d"]:
            out.count("reach:cut_between_flights")


PROP = C08()
