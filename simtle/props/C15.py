"""C15 - derived traffic keys equal the RFC key schedules (as actually installed for a connection)."""
from ..rng import Rng
from .. import gen, world, tlsref as T
from ..harness import Outcome
from .base import Prop, run_export, failure_class, failure_detail, describe_conn


class C15(Prop):
    id = "C15"
    level = "exploration"
    rule = ("reference model checked operation by operation: simulated TLS and QUIC connections with random secrets, randoms, "
            "connection ids; harness-side probes record the key material the real code installs at every installation event "
            "(TLS: after ServerHello and at each TLS 1.3 handshake->application switch; QUIC: Initial, Handshake/0-RTT/1-RTT, "
            "every key-update generation, header-protection keys) and compare it with the simulated peers' own keys; the "
            "first len(all_pairs) indices visit every valid (version, suite) pair; non-trivial = at least one installation "
            "event observed; distinct = spec digests")
    reach = ["tls_legacy", "tls13", "tls13_switch_client", "tls13_switch_server", "quic_initial", "quic_tls", "quic_ku",
             "mac_keys", "cbc_iv_implicit", "aead_fixed_iv", "sha384_prf", "resumption_shares_master_secret",
             "key_log_lines_of_connections_interleaved", "quic_version_negotiation_first",
             "tls13_hello_retry_request", "long_key_log_line_across_block_boundary"]

    def plan(self, tier):
        p = super().plan(tier)
        if tier == "quick":
            p["count"] = 1300
        return p

    def gen(self, seed, idx, tier):
        R = Rng(seed, "C15")
        pairs = gen.all_pairs()
        used = set()
        cfg = {"records_max": 4, "len_max": 300, "isn_wrap": False, "no_hs_secrets_pct": 0, "hrr_pct": 12}
        if idx < len(pairs) or not self.quic_available() or R.chance(55):
            c = gen.gen_tls_conn(R.fork("conn"), 0, cfg, used, pair=pairs[idx] if idx < len(pairs) else None)
        else:
            from .. import quicpeer
            c = quicpeer.gen_quic_conn(R.fork("q"), 0, {"ku_pct": 60, "vneg_pct": 15}, used)
        conns = [c]
        if c["proto"] == "tls" and c["ver"] != T.TLS13 and idx >= len(pairs) and R.chance(40):
            # a second connection resuming the first one: same master secret, new randoms -> different keys
            c2 = gen.gen_tls_conn(R.fork("conn2"), 1, cfg, used)
            if gen.make_resumption_of(R.fork("resume"), c2, c):
                conns.append(c2)
        spec = {"prop": "C15", "conns": conns, "tap": gen.gen_tap(R.fork("tap")),
                "policy": R.choice(["concurrent", "sequential"])}
        if idx >= len(pairs) and R.chance(35):
            # concurrent handshakes: the lines of the connections alternate in the key log (a library appends each
            # secret when it comes into existence), so the secrets of one connection are not contiguous
            n0 = len(conns)
            for j in range(R.range(1, 2)):
                conns.append(gen.gen_tls_conn(R.fork("conn-other", j), n0 + j, cfg, used))
            spec["keychan"] = {"mode": "file", "perm_seed": R.bits(30)}
            spec["policy"] = "concurrent"
        elif idx >= len(pairs) and R.chance(12):
            # a long key-log file in which one line of the connection lies across a block boundary
            spec["keychan"] = {"mode": "file", "straddle": R.bits(30)}
            spec["long_key_log"] = True
        return spec

    def quic_available(self):
        import os
        return os.path.exists(os.path.join(os.path.dirname(os.path.dirname(__file__)), "quicpeer.py"))

    def check(self, lane, spec):
        out = Outcome()
        ex = world.expand(spec)
        out.sim_time_ns = ex["stats"]["sim_time_ns"]
        res = run_export(lane, spec, ex, out, probes=["keys", "quic"])
        out.sample = {"seed": spec.get("seed"), "conns": [describe_conn(c) for c in spec["conns"]]}
        if failure_class(res):
            out.count("run_failed")
            return out
        pr = res.probes or []
        ports = [c["c"]["port"] for c in spec["conns"]]
        for conn, t in zip(spec["conns"], ex["truth"]["conns"]):
            if ports.count(conn["c"]["port"]) > 1:
                # the probes name a connection by its client port: two connections with the same port number (other
                # hosts) cannot be told apart there, their installations are not judged
                out.count("installation_events_not_attributable_same_client_port")
                continue
            if conn["proto"] == "tls":
                mine = [p for p in pr if (p[0] == "keys" and p[1].get("port") == conn["c"]["port"])]
                if len(spec["conns"]) == 1:
                    mine += [p for p in pr if p[0] == "keyupd"]
                if conn.get("resumes") is not None:
                    out.count("reach:resumption_shares_master_secret")
                if spec.get("long_key_log"):
                    out.count("reach:long_key_log_line_across_block_boundary")
                elif "keychan" in spec:
                    out.count("reach:key_log_lines_of_connections_interleaved")
                if conn.get("hrr"):
                    out.count("reach:tls13_hello_retry_request")
                self.check_tls(out, conn, t, mine, switches_attributable=len(spec["conns"]) == 1)
            else:
                from .. import quicpeer
                if conn["q"].get("vneg_prelude"):
                    out.count("reach:quic_version_negotiation_first")
                quicpeer.check_keys(out, conn, t, pr)
        return out

    def check_tls(self, out, conn, t, pr, switches_attributable=True):
        k = t["keys"]
        s = T.SUITES[conn["suite"]]
        ver = conn["ver"]
        ents = [p[1] for p in pr if p[0] == "keys"]
        if not ents:
            out.violate("keys-installed", "no-installation-event", describe_conn(conn))
            return
        e = ents[-1]
        out.nontrivial = True
        out.add("version_suite_pairs", "%04x/%04x" % (ver, conn["suite"]))
        tag = "%s" % describe_conn(conn)

        def cmp(name, got, want, what):
            if got is None:
                out.violate("installed-keys-equal-rfc", "missing:%s" % what, "%s: %s not installed" % (tag, name))
            elif got != want:
                out.violate("installed-keys-equal-rfc", "wrong:%s:%04x:%s" % (what, ver, s.mode),
                            "%s: %s = %s, RFC value %s" % (tag, name, got, want))
        if ver == T.TLS13:
            out.count("reach:tls13")
            for side, a, b in (("client", "chs", "cap"), ("server", "shs", "sap")):
                cmp(side + "_handshake_key", e.get(side + "_handshake_key"), k[a + "_key"], "hs-key")
                cmp(side + "_handshake_iv", e.get(side + "_handshake_iv"), k[a + "_iv"], "hs-iv")
                cmp(side + "_application_key", e.get(side + "_application_key"), k[b + "_key"], "app-key")
                cmp(side + "_application_iv", e.get(side + "_application_iv"), k[b + "_iv"], "app-iv")
            if s.prf == "sha384":
                out.count("reach:sha384_prf")
            ups = [p for p in pr if p[0] == "keyupd"]
            for u in ups:
                side = "s" if u[1] else "c"
                out.count("reach:tls13_switch_" + ("server" if u[1] else "client"))
                if u[2] != k[side + "ap_key"] or u[3] != k[side + "ap_iv"]:
                    out.violate("installed-keys-equal-rfc", "wrong:switch-to-application-keys",
                                "%s: after Finished the %s direction uses key %s iv %s" % (tag, side, u[2], u[3]))
            sent = {d: any(r["d"] == d and r["kind"] == "ehs" for r in t["records"]) for d in "cs"}
            for d, name in (("s", True), ("c", False)):
                if switches_attributable and sent[d] and not any(u[1] == name for u in ups):
                    out.violate("installed-keys-equal-rfc", "missing:switch-to-application-keys",
                                "%s: %s Finished seen but no key switch" % (tag, d))
        else:
            out.count("reach:tls_legacy")
            cmp("client_write_key", e.get("client_key"), k["ckey"], "key")
            cmp("server_write_key", e.get("server_key"), k["skey"], "key")
            if s.maclen:
                out.count("reach:mac_keys")
                cmp("client_write_MAC_secret", e.get("client_mac"), k["cmac"], "mac-key")
                cmp("server_write_MAC_secret", e.get("server_mac"), k["smac"], "mac-key")
            if k["civ"]:
                # the RFC defines an IV here: CBC of SSL 3.0 / TLS 1.0, fixed part of AEAD nonces
                out.count("reach:cbc_iv_implicit" if s.mode == "cbc" else "reach:aead_fixed_iv")
                cmp("client_write_IV", e.get("client_iv"), k["civ"], "iv")
                cmp("server_write_IV", e.get("server_iv"), k["siv"], "iv")
            if s.prf == "sha384":
                out.count("reach:sha384_prf")
            if bool(e.get("etm")) != bool(conn.get("etm")):
                out.count("etm_flag_mismatch")


PROP = C15()
