"""C02 - QUIC v1 STREAM data is exported exactly, datagram by datagram."""
from ..rng import Rng
from .. import gen, world, quicpeer
from ..harness import Outcome
from .base import Prop, run_export, failure_class, failure_detail, Flows, describe_conn

NET = {"delay": 60, "dup": 50, "lost": 50, "lost_before": 30, "_D": 3}


def seq_mismatch_class(got, want):
    if got == want:
        return None
    if len(got) < len(want) and want[:len(got)] == got:
        return "missing-suffix"
    gd = [g[0] for g in got]
    if sorted(g[1] for g in got) == sorted(w[1] for w in want) and [g[1] for g in got] == [w[1] for w in want]:
        return "direction-wrong"
    if len(got) < len(want):
        # is got a subsequence?
        j = 0
        ok = True
        for g in got:
            while j < len(want) and want[j] != g:
                j += 1
            if j >= len(want):
                ok = False
                break
            j += 1
        if ok:
            return "datagrams-missing"
    if b"".join(g[1] for g in got) == b"".join(w[1] for w in want):
        return "datagram-boundaries-wrong"
    if len(got) > len(want):
        return "extra-datagrams"
    return "payload-wrong"


class C02(Prop):
    id = "C02"
    level = "exploration"
    rule = ("scenario = 1-3 simulated QUIC v1 connections (suite, offered-suite order, CID lengths 0..20, PN lengths and "
            "skips, coalescing, frame mixes with arbitrary varint widths, CRYPTO split/reordered, Retry, 0-RTT, "
            "NEW_CONNECTION_ID + CID switch, key updates by either side, IPv4/6); even indices: loss-free in-order UDP path; "
            "odd indices: the simulated UDP path loses, duplicates and reorders plain 1-RTT datagrams of one key phase; "
            "oracle: non-empty output datagrams == one entry per captured datagram with STREAM data, in capture order; "
            "non-trivial = at least one datagram with stream data was captured; distinct = spec digests")
    reach = ["suite_1301", "suite_1302", "suite_1303", "suite_1304", "negotiated_not_first_offered", "zero_len_cid_client",
             "zero_len_cid_server", "retry", "one_way_capture", "zero_rtt", "crypto_out_of_order", "crypto_multi_packet", "coalesced_3_types",
             "key_update", "key_updates_ge_2", "cid_switch", "pnlen_1", "pnlen_4", "pn_skip", "stream_no_length",
             "multi_stream_frames", "net_dup", "net_loss", "net_reorder", "ipv6", "multi_conn", "retry_id_equals_first_protected_byte",
             "new_connection_id_of_other_length", "version_negotiation_first",
             "connection_id_issued_mid_connection"]

    def plan(self, tier):
        p = super().plan(tier)
        if tier == "quick":
            p["count"] = 1000
        return p

    def gen(self, seed, idx, tier):
        R = Rng(seed, "C02")
        used = set()
        n = R.weighted([(1, 65), (2, 25), (3, 10)])
        cfg = {"small": tier == "quick", "zero_rtt_any_suite_pct": 25, "vneg_pct": 6}
        if idx % 2:
            cfg["net"] = NET
        policy = R.choice(["concurrent", "staggered", "sequential"])
        cfg["policy"] = policy
        if idx % 8 == 5:
            cfg["retry_pct"] = 100
        conns = [quicpeer.gen_quic_conn(R.fork("conn", j), j, cfg, used) for j in range(n)]
        if idx % 8 == 5:
            self.aim_retry_id(conns[0])
        return {"prop": "C02", "conns": conns, "tap": gen.gen_tap(R.fork("tap")), "policy": policy}

    def aim_retry_id(self, conn):
        """The one byte id of the Retry equals the first protected byte of a later client 1-RTT packet (the server uses
        zero-length ids, so that byte is not a connection id): handshake-only ids must not match short headers."""
        q = conn["q"]
        q["scid_s_len"] = 0
        q["ncid"]["s"] = 0
        q.pop("cid_switch", None)
        try:
            _, info = quicpeer.build_units(conn)
        except Exception:
            return
        cands = [dg for dg, dm in zip(info["dgrams"], info["dmeta"]) if dm["d"] == "c" and dm["pk"] and
                 dm["pk"][0]["kind"] == "1rtt" and len(dg) > 1]
        if not cands:
            return
        q["retry_scid_hex"] = "%02x" % cands[len(cands) // 2][1]
        conn["retry_id_aimed"] = True

    def neutralisers(self):
        def suite_first(spec):
            # only connections that use 0-RTT although the negotiated suite is not offered first (KF-2) are touched
            ch = False
            for c in spec["conns"]:
                if c["proto"] == "quic" and c["q"].get("zero_rtt") and c["q"]["offered"][0] != c["q"]["suite"]:
                    c["q"]["offered"].remove(c["q"]["suite"])
                    c["q"]["offered"].insert(0, c["q"]["suite"])
                    ch = True
            return spec if ch else None
        return {"zero-rtt-suite-offered-first": suite_first}

    def check(self, lane, spec):
        out = Outcome()
        ex = world.expand(spec)
        out.sim_time_ns = ex["stats"]["sim_time_ns"]
        res = run_export(lane, spec, ex, out, probes=["quic"])
        self.probes(out, spec, ex)
        out.sample = {"seed": spec.get("seed"), "conns": [describe_conn(c) for c in spec["conns"]][:3],
                      "datagrams": ex["stats"]["frames"]}
        fc = failure_class(res)
        if fc:
            out.violate("no-failure", fc, failure_detail(res))
            return out
        try:
            fl = Flows(spec, ex["truth"], res.out)
        except Exception as e:
            out.violate("output-readable", "unreadable:%s" % getattr(e, "rule", type(e).__name__), str(e))
            return out
        all_ok = True
        for c in ex["truth"]["conns"]:
            if c["proto"] != "quic":
                continue
            conn = [x for x in spec["conns"] if x["id"] == c["id"]][0]
            got = [(d, p) for d, p, _ in fl.udp_seq(c["id"])]
            want = [(e["d"], e["payload"]) for e in c["expected"]]
            if want:
                out.nontrivial = True
            if c.get("undecodable_packets"):
                out.count("packets_outside_sender_window", c["undecodable_packets"])
            cls = seq_mismatch_class(got, want)
            if cls:
                all_ok = False
                q = conn["q"]
                out.violate("datagrams-equal-truth", cls,
                            "conn %d: exported %d non-empty datagrams, %d captured datagrams carried stream data; suite %04x "
                            "offered %s dcid/scid %d/%d/%d retry %s 0rtt %s crypto order %s ncid %s" % (
                                c["id"], len(got), len(want), q["suite"], ["%04x" % x for x in q["offered"]], q["dcid_len"],
                                q["scid_c_len"], q["scid_s_len"], q["retry"], bool(q["zero_rtt"]), q["ch_order"], q["ncid"]))
        if fl.extra:
            out.violate("no-foreign-flow", "extra-flow", "unexpected flows: %d" % len(fl.extra))
        if all_ok:
            self.frame_observer(out, spec, ex, res)
        return out

    def frame_observer(self, out, spec, ex, res):
        """secondary oracle: STREAM / CRYPTO / NEW_CONNECTION_ID frames the real parser produced for each decrypted
        packet == the frames the simulated peer encoded (ids, offsets, fin, data)"""
        byts = {}
        for p in res.probes or []:
            if p[0] == "q_frames":
                byts.setdefault(int(round(p[2] * 1000000)), []).append(p)
        for c in ex["truth"]["conns"]:
            if c["proto"] != "quic":
                continue
            seen_ts = set()
            for f in c["frames"]:
                if not f["kept"] or f["ts"] in seen_ts:
                    continue
                seen_ts.add(f["ts"])
                pks = [pk for pk in c["dmeta"][f["dg"]]["pk"] if pk["kind"] not in ("retry", "vneg")]
                got = byts.get(f["ts"], [])
                if len(got) != len(pks):
                    continue          # undecryptable duplicates etc.; the primary oracle judges the outcome
                for pk, g in zip(pks, got):
                    want = [(m["n"], m.get("stream_id"), m.get("offset"), m.get("fin"), m.get("data"), m.get("cid"))
                            for m in pk["frames"] if m["n"] in ("StreamFrame", "CryptoFrame", "NewConnectionIdFrame")]
                    have = [(m["n"], m.get("stream_id"), m.get("offset"), m.get("fin") if m["n"] == "StreamFrame" else None,
                             m.get("data"), m.get("cid"))
                            for m in g[4] if m["n"] in ("StreamFrame", "CryptoFrame", "NewConnectionIdFrame")]
                    if want != have:
                        out.violate("frames-parsed-as-sent", "frame-fields-differ",
                                    "conn %d datagram %d %s packet pn %s: sent %s parsed %s" % (
                                        c["id"], f["dg"], pk["kind"], pk.get("pn"), str(want)[:300], str(have)[:300]))
                        return
                    out.count("frames_compared", len(want))

    def probes(self, out, spec, ex):
        if len(spec["conns"]) > 1:
            out.count("reach:multi_conn")
        for conn, t in zip(spec["conns"], ex["truth"]["conns"]):
            if conn["proto"] != "quic":
                continue
            q = conn["q"]
            out.count("reach:suite_%04x" % q["suite"])
            out.add("offered_orders", str(q["offered"]))
            if q["offered"][0] != q["suite"]:
                out.count("reach:negotiated_not_first_offered")
            if q["scid_c_len"] == 0:
                out.count("reach:zero_len_cid_client")
            if q["scid_s_len"] == 0:
                out.count("reach:zero_len_cid_server")
            if q.get("ncid_len") and (q["ncid"]["s"] or q["ncid"]["c"]):
                out.count("reach:new_connection_id_of_other_length")
            if q.get("vneg_prelude"):
                out.count("reach:version_negotiation_first")
            if any(f.get("ncid_issue") for f in q["script"]):
                out.count("reach:connection_id_issued_mid_connection")
            if q["retry"]:
                out.count("reach:retry")
            if conn.get("retry_id_aimed"):
                _, info = quicpeer.build_units(conn)
                rid = bytes.fromhex(q["retry_scid_hex"])
                kept = set(f["dg"] for f in t["frames"] if f["kept"])
                if any(dm["d"] == "c" and dm["pk"][0]["kind"] == "1rtt" and dg[1:2] == rid and i in kept
                       for i, (dg, dm) in enumerate(zip(info["dgrams"], info["dmeta"])) if dm["pk"]):
                    out.count("reach:retry_id_equals_first_protected_byte")
            if q.get("one_way"):
                out.count("reach:one_way_capture")
            if q["zero_rtt"]:
                out.count("reach:zero_rtt")
            if q["ch_order"] != sorted(q["ch_order"]) and len(q["ch_order"]) > 1:
                out.count("reach:crypto_out_of_order")
            if conn["v6"]:
                out.count("reach:ipv6")
            nku = sum(1 for f in q["script"] if f.get("ku"))
            gens = t["keys"].get("app_generations", 1)
            if gens >= 2:
                out.count("reach:key_update")
            if gens >= 3:
                out.count("reach:key_updates_ge_2")
            ninit = 0
            for dm in t["dmeta"]:
                kinds = set(p["kind"] for p in dm["pk"])
                if len(kinds) >= 3:
                    out.count("reach:coalesced_3_types")
                for p in dm["pk"]:
                    if p["kind"] == "init" and dm["d"] == "c" and any(m["n"] == "CryptoFrame" for m in p["frames"]):
                        ninit += 1
                    if p.get("pnlen") == 1:
                        out.count("reach:pnlen_1")
                    if p.get("pnlen") == 4:
                        out.count("reach:pnlen_4")
                    ns = sum(1 for m in p["frames"] if m["n"] == "StreamFrame")
                    if ns >= 2:
                        out.count("reach:multi_stream_frames")
            if ninit >= 2:
                out.count("reach:crypto_multi_packet")
            for f in q["script"]:
                if f.get("cid_switch"):
                    out.count("reach:cid_switch")
                for d in "cs":
                    for dg in f.get(d, []):
                        for pk in dg["pk"]:
                            if pk.get("skip"):
                                out.count("reach:pn_skip")
                            if any(fr[0] == "stream" and not fr[4] for fr in pk["frames"]):
                                out.count("reach:stream_no_length")
            seen = set()
            maxi = {}
            for f in t["frames"]:
                if f["dup"]:
                    out.count("reach:net_dup")
                    out.count("fault:udp_duplicate")
                key = (f["d"],)
                if f["dg"] < maxi.get(key, -1) and not f["dup"]:
                    out.count("reach:net_reorder")
                    out.count("fault:udp_reorder")
                maxi[key] = max(maxi.get(key, -1), f["dg"])
                seen.add(f["dg"])
            lost = len(t["dmeta"]) - len(seen)
            if lost > 0:
                out.count("reach:net_loss")
                out.count("fault:udp_loss", lost)
        out.add("interleavings", world.interleave_signature(ex["taplog"]))


PROP = C02()
