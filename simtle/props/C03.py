"""C03 - an undecryptable or damaged flow never aborts the run or disturbs other flows."""
import copy
import itertools

from ..rng import Rng
from .. import gen, world
from ..harness import Outcome
from .base import Prop, run_export, failure_class, failure_detail, Flows, describe_conn

INFO_REMOVING = ("drop", "cut", "late", "keydrop", "unknown_suite", "foreign")


class C03(Prop):
    id = "C03"
    level = "fault_enumeration"
    rule = ("world = one victim flow (TLS or QUIC) + 1-3 healthy bystanders (TLS/QUIC), interleaved; one evaluation = one "
            "single fault from the property's list applied to the victim (delete packet i, start/stop the capture at i, "
            "remove a subset of its key-log lines, replace its secrets by random ones, unknown suite id in ServerHello, "
            "flip a bit / overwrite / shorten a TCP or UDP payload with checksums recomputed, add plain HTTP on 443, add "
            "arbitrary UDP datagrams) exported and compared with the fault-free export; quick samples the fault list "
            "(stratified: handshake packets, packets inside spanning records, after key changes), thorough enumerates "
            "every packet/position/subset; non-trivial = the fault changed the capture or key log; distinct = (scenario, fault)")
    reach = ["victim_tls", "victim_quic", "bystander_quic", "fault_in_handshake", "fault_in_spanning_record",
             "keydrop_subset", "late_start_mid_record", "flip_in_record_header", "flip_in_handshake_msg", "flip_aimed_at_hello_or_quic_header", "flows_share_a_server",
             "damage_visible_in_checksum_with_c"]

    def plan(self, tier):
        p = super().plan(tier)
        if tier == "quick":
            p["count"] = 96          # ~55 exports per scenario, the real TLExport run dominates (~0.2 s each)
            p["budget_s"] = 170
        return p

    def gen(self, seed, idx, tier):
        R = Rng(seed, "C03")
        cfg = {"records_max": 6, "len_max": 2500, "isn_wrap": False, "seg_pct": 70, "quic_pct": 35,
               "net": {"dup_late": 50, "dup_rto": 50, "dup": 30, "_D": 3}, "net_pct": 50,
               "quic": {"small": True, "zero_cid_pct": 30, "hs_dup_pct": 20}}
        if R.chance(35):
            # flows that share a server (same server ip:port, different clients), started one after the other, so that a
            # capture starting late holds one flow without its handshake next to a complete one
            from .. import quicpeer
            from .base import apply_segmentation
            used = set()
            conns = []
            pol = R.choice(["staggered", "sequential", "concurrent"])
            for j in range(R.range(2, 4)):
                kw = {}
                c2 = dict(cfg, policy=pol)
                if conns:
                    kw = {"server_ip": conns[0]["s"]["ip"], "server_port": conns[0]["s"]["port"]}
                    c2["v6_pct"] = 100 if conns[0]["v6"] else 0
                want_quic = (conns[0]["proto"] == "quic") if conns else R.chance(55)
                if want_quic:
                    c = quicpeer.gen_quic_conn(R.fork("q", j), j, dict(cfg["quic"], policy=pol, v6_pct=c2.get("v6_pct", 30)), used, **kw)
                else:
                    c = gen.gen_tls_conn(R.fork("conn", j), j, c2, used, **kw)
                    if R.chance(60):
                        apply_segmentation(R.fork("seg", j), c, net=cfg["net"] if R.chance(50) else None)
                if conns:
                    c["s"]["mac"] = conns[0]["s"]["mac"]
                conns.append(c)
            spec = {"conns": conns, "tap": gen.gen_tap(R.fork("tap")), "policy": "concurrent", "shared_server": True}
            # the other flows start when flow 0 has just finished its handshake and keeps talking
            ex = world.expand({"conns": [conns[0]], "tap": spec["tap"]})
            t_hs = None
            t0 = ex["truth"]["conns"][0]
            for e in ex["taplog"]:
                if "ctl" in e:
                    continue
                if conns[0]["proto"] == "quic":
                    kinds = set(p["kind"] for p in t0["dmeta"][e["dg"]]["pk"])
                    if kinds == {"1rtt"} and any(m["n"] == "StreamFrame" for p in t0["dmeta"][e["dg"]]["pk"] for m in p["frames"]):
                        t_hs = e["t"]
                        break
                else:
                    if any(r["kind"] == "app" and r["d"] == e["d"] and r["lo"] < e["hi"] and r["hi"] > e["lo"] for r in t0["records"]):
                        t_hs = e["t"]
                        break
            if t_hs is not None:
                for c in conns[1:]:
                    c["t"]["start_us"] = max(0, t_hs // 1000 - 50 + R.range(0, 400))
                spec["force_victim"] = conns[0]["id"]
        else:
            spec = gen.gen_mixed_world(R.fork("world"), cfg, nconn=R.range(2, 4))
        spec["prop"] = "C03"
        spec["tier"] = tier
        spec["victim"] = spec["conns"][R.below(len(spec["conns"]))]["id"]
        if spec.get("force_victim") is not None and R.chance(70):
            spec["victim"] = spec["force_victim"]
        if R.chance(45):
            from .base import random_cli
            spec["cli"] = random_cli(R.fork("cli"), spec["conns"], allow=("a", "m", "g", "c"))
        spec["fseed"] = R.bits(40)
        return spec

    # ---- fault list
    def fault_list(self, spec, ex, tier):
        R = Rng(spec["fseed"], "faults")
        vid = spec["victim"]
        vconn = [c for c in spec["conns"] if c["id"] == vid][0]
        tl = ex["taplog"]
        vidx = [e["i"] for e in tl if e["conn"] == vid and "ctl" not in e]
        n = len(tl)
        full = tier != "quick"
        faults = []

        def pick(lst, k):
            if full or len(lst) <= k:
                return list(lst)
            step = R.sample(lst, k)
            return sorted(step)

        # stratified: the first packet of every flight of the victim (direction change) is always dropped once, and
        # the capture is always started / stopped once right behind the victim's first packet and first flight
        firsts = []
        prev = None
        for i in vidx:
            if tl[i]["d"] != prev:
                firsts.append(i)
            prev = tl[i]["d"]
        firsts = firsts[:6]
        for i in sorted(set(pick(vidx, 5) + firsts)):
            faults.append(("drop", {"k": "drop", "i": i}))
        for i in sorted(set(pick(list(range(0, n + 1)), 3) + [x + 1 for x in firsts[:2]])):
            faults.append(("cut", {"k": "cut", "i": i}))
        vtruth = [c for c in ex["truth"]["conns"] if c["id"] == vid][0]
        first_app = []
        for i in vidx:
            e = tl[i]
            if vconn["proto"] == "quic":
                if set(p["kind"] for p in vtruth["dmeta"][e["dg"]]["pk"]) == {"1rtt"} and \
                        any(m["n"] == "StreamFrame" for p in vtruth["dmeta"][e["dg"]]["pk"] for m in p["frames"]):
                    first_app.append(i)
                    break
            elif any(r["kind"] == "app" and r["d"] == e["d"] and r["lo"] < e["hi"] and r["hi"] > e["lo"] for r in vtruth["records"]):
                first_app.append(i)
                break
        for i in sorted(set(pick(list(range(0, n + 1)), 4) + [x + 1 for x in firsts[:3]] + first_app + [x + 1 for x in first_app])):
            faults.append(("late", {"k": "late", "i": i}))
        for i in pick(vidx, 6):
            e = tl[i]
            ln = (e["hi"] - e["lo"]) if "lo" in e else 1200
            offs = [0, 1, 3, 4, 5, 6, 9, 43] + [R.below(max(1, ln)) for _ in range(3)]
            off = R.choice(offs) if not full else None
            for o in ([off] if off is not None else offs):
                faults.append(("flip", {"k": "flip", "i": i, "off": o, "bit": R.below(8), "fix": True}))
            if spec.get("cli", {}).get("c"):
                # with -c: the damage is visible in the transport checksum (checksum field left as sent)
                faults.append(("flip", {"k": "flip", "i": i, "off": R.choice(offs), "bit": R.below(8), "fix": False}))
            faults.append(("overwrite", {"k": "overwrite", "i": i, "off": R.below(max(1, ln)), "n": R.range(1, 64),
                                         "seed": R.bits(30)})) if (full or R.chance(40)) else None
            faults.append(("shorten", {"k": "shorten", "i": i, "n": R.range(1, 40)})) if (full or R.chance(25)) else None
        # damage aimed at in-flight protocol state: the victim's ServerHello (version, session-id length, suite,
        # extensions decide which keys are installed) and the first byte / version of every QUIC packet header
        vt = [c for c in ex["truth"]["conns"] if c["id"] == vid][0]
        aimed = []
        if vconn["proto"] == "tls":
            for r in vt["records"]:
                if r["d"] == "s" and r["kind"] == "hs" and r["raw"][5:6] == b"\x02":
                    shlen = 9 + int.from_bytes(r["raw"][6:9], "big")
                    for f_ in vt["frames"]:
                        if f_["d"] == "s" and f_["kept"] and not f_["dup"] and f_["lo"] < r["lo"] + shlen and f_["hi"] > r["lo"]:
                            lo = max(f_["lo"], r["lo"]) - f_["lo"]
                            hi = min(f_["hi"], r["lo"] + shlen) - f_["lo"]
                            for o in range(lo, hi):
                                for b in range(8):
                                    aimed.append((f_["i"], o, b))
                    break
        elif vconn["proto"] == "quic":
            for f_ in vt["frames"]:
                if not f_["kept"] or f_["dup"]:
                    continue
                for pk in vt["dmeta"][f_["dg"]]["pk"]:
                    if "off" in pk:
                        for b in range(8):
                            aimed.append((f_["i"], pk["off"], b))
                        for o in (1, 2, 3, 4, 5):
                            aimed.append((f_["i"], pk["off"] + o, R.below(8)))
        for (i, o, b) in pick(aimed, 14):
            faults.append(("flip", {"k": "flip", "i": i, "off": o, "bit": b, "fix": True, "aimed": True}))
        labels = sorted(set(l.split(" ")[0] for l in ex["keylines"] if vconn_has(l, ex, vid)))
        subsets = []
        for r in range(1, len(labels) + 1):
            for sub in itertools.combinations(labels, r):
                subsets.append(list(sub))
        for sub in pick(subsets, 4):
            faults.append(("keydrop", {"keydrop": sub}))
        for lab in pick(labels, 2):
            faults.append(("keyreplace", {"keyreplace": [lab]}))
        if labels:
            faults.append(("keyreplace", {"keyreplace": labels}))
        if vconn["proto"] == "tls":
            faults.append(("unknown_suite", {"unknown_suite": R.choice([0x5A5A, 0x0000, 0x0001, 0xC03C, 0xFFFF, 0x1306])}))
        faults.append(("foreign", {"foreign": "http", "seed": R.bits(30)}))
        faults.append(("foreign", {"foreign": "udp", "seed": R.bits(30)}))
        faults.append(("foreign", {"foreign": "udp_vneg", "seed": R.bits(30)}))
        if full or R.chance(35):
            # several hundred unrelated datagrams, each from another host and port and each looking like the start of a
            # QUIC connection, in the middle of the capture
            faults.append(("foreign", {"foreign": "udp_burst", "seed": R.bits(30),
                                       "at_us": max(1, (tl[len(tl) // 2]["t"] - tl[0]["t"]) // 1000) if tl else 1}))
        if full or R.chance(50):
            faults.append(("foreign", {"foreign": "udp", "seed": R.bits(30)}))
        # pairs of faults (thorough: 40 sampled pairs; quick: 2), e.g. a lost packet AND a missing key line
        singles = [x for x in faults if x[0] != "pair"]
        for _ in range(40 if full else 2):
            a, b = R.choice(singles), R.choice(singles)
            # adding a foreign flow renumbers the tap log, so it is only paired with faults that carry no tap index
            idx_based = lambda x: "k" in x[1]      # noqa: E731
            if a is not b and not ("foreign" in a[1] and "foreign" in b[1]) and \
                    not (("foreign" in a[1] and idx_based(b)) or ("foreign" in b[1] and idx_based(a))):
                faults.append(("pair", {"pair": [list(a), list(b)]}))
        return faults

    def apply_fault(self, spec, kind, f):
        s2 = copy.deepcopy(spec)
        vid = spec["victim"]
        if "pair" in f:
            for k2, f2 in f["pair"]:
                s2 = self.apply_fault(s2, k2, f2)
            return s2
        if "k" in f:
            s2.setdefault("faults", []).append(f)
        elif "keydrop" in f:
            kc = s2.setdefault("keychan", {"mode": "file"})
            kc.setdefault("drop", []).extend([[vid, lab] for lab in f["keydrop"]])
        elif "keyreplace" in f:
            kc = s2.setdefault("keychan", {"mode": "file"})
            kc.setdefault("replace", []).extend([[vid, lab, 12345] for lab in f["keyreplace"]])
        elif "unknown_suite" in f:
            for c in s2["conns"]:
                if c["id"] == vid:
                    c["sh_suite_wire"] = f["unknown_suite"]
        elif "foreign" in f:
            R = Rng(f["seed"], "foreign")
            used = set((c["c"]["ip"], c["c"]["port"], c["s"]["ip"], c["s"]["port"]) for c in s2["conns"])
            k = max(c["id"] for c in s2["conns"]) + 1
            if f["foreign"] == "http":
                s2["conns"].append(gen.gen_http_conn(R, k, used, port=443, v6=R.chance(30)))
            elif f["foreign"] == "udp_burst":
                c = gen.gen_udp_noise(R, k, used, v6=R.chance(30), port=R.choice([443, 443, 8443, R.range(1024, 65535)]))
                c["dgrams"] = [["c", (bytes([0xC0 | R.below(64)]) + R.bytes(R.range(6, 40))).hex()] for _ in range(R.range(280, 340))]
                c["src_per_dgram"] = True
                c["t"]["start_us"] = f.get("at_us", 1)
                c["t"]["gap_ns"] = 700
                c["t"]["think_us"] = 0
                s2["conns"].append(c)
            elif f["foreign"] == "udp_vneg":
                # datagrams that look like QUIC Version Negotiation / unknown versions (arbitrary UDP payloads)
                c = gen.gen_udp_noise(R, k, used, v6=R.chance(30), port=R.choice([443, 8443, R.range(1024, 65535)]))
                dg = []
                for j in range(R.range(1, 3)):
                    b = bytes([0x80 | R.below(128)]) + R.choice([b"\x00\x00\x00\x00", b"\xfa\xce\xb0\x0c", b"\x00\x00\x00\x02"]) + \
                        bytes([8]) + R.bytes(8) + bytes([R.choice([0, 8])]) + R.bytes(8) + b"\x00\x00\x00\x01" * R.range(0, 3)
                    dg.append([R.choice("cs") if j else "c", b.hex()])
                c["dgrams"] = dg
                s2["conns"].append(c)
            else:
                s2["conns"].append(gen.gen_udp_noise(R, k, used, v6=R.chance(30)))
        return s2

    def flow_packets(self, fl, cid):
        return [(p["raw"], p["ts_us"]) for p in fl.conn_packets(cid)]

    def check(self, lane, spec):
        out = Outcome()
        ex0 = world.expand(spec)
        out.sim_time_ns = ex0["stats"]["sim_time_ns"]
        res0 = run_export(lane, spec, ex0, out)
        vid = spec["victim"]
        vconn = [c for c in spec["conns"] if c["id"] == vid][0]
        out.count("reach:victim_" + vconn["proto"])
        if spec.get("shared_server"):
            out.count("reach:flows_share_a_server")
        if any(c["proto"] == "quic" and c["id"] != vid for c in spec["conns"]):
            out.count("reach:bystander_quic")
        out.sample = {"seed": spec.get("seed"), "victim": describe_conn(vconn),
                      "bystanders": [describe_conn(c) for c in spec["conns"] if c["id"] != vid][:3]}
        if failure_class(res0):
            out.count("baseline_failed")
            return out
        try:
            fl0 = Flows(spec, ex0["truth"], res0.out)
        except Exception:
            out.count("baseline_unreadable")
            return out
        base = {c["id"]: self.flow_packets(fl0, c["id"]) for c in spec["conns"] if c["id"] != vid}
        span = {}
        for e in ex0["taplog"]:
            a, b = span.get(e["conn"], (e["i"], e["i"]))
            span[e["conn"]] = (min(a, e["i"]), max(b, e["i"]))
        only = spec.get("only_fault")
        flist = [tuple(only)] if only else self.fault_list(spec, ex0, spec.get("tier", "quick"))
        out.sample["faults"] = [f for _, f in flist[:6]]
        for kind, f in flist:
            if lane.expired():
                out.count("enumeration_truncated_by_budget")
                break
            s2 = self.apply_fault(spec, kind, f)
            ex = world.expand(s2)
            changed = ex["capture"] != ex0["capture"] or ex["keylog"] != ex0["keylog"]
            res = run_export(lane, s2, ex, out)
            out.count("fault:" + kind)
            if changed:
                out.nontrivial = True
                out.add("faults", "%s:%s" % (spec.get("seed"), sorted(f.items())))
                out.item("fault:%s" % sorted(f.items()))
            self.reach_probe(out, ex0, kind, f, vid)
            if f.get("aimed"):
                out.count("reach:flip_aimed_at_hello_or_quic_header")
            if kind == "flip" and f.get("fix") is False:
                out.count("reach:damage_visible_in_checksum_with_c")
            tag = "fault %s %s on victim conn %d (%s)" % (kind, f, vid, describe_conn(vconn))
            fc = failure_class(res)
            if fc:
                out.violate("run-does-not-fail", fc, tag + "\n" + failure_detail(res), focus=[kind, f])
                continue
            try:
                fl = Flows(s2, ex["truth"], res.out)
            except Exception as e:
                out.violate("output-readable", "unreadable:%s" % getattr(e, "rule", type(e).__name__), tag, focus=[kind, f])
                continue
            for cid, pk in base.items():
                if kind == "pair" and any(k2 in ("cut", "late") for k2, _ in f["pair"]):
                    continue
                if kind in ("cut", "late"):
                    # the capture process fault hits every flow it overlaps (C08 judges those); a bystander that lies
                    # entirely inside the captured part must still be exported unchanged
                    lo_i, hi_i = span.get(cid, (0, -1))
                    if kind == "late" and not lo_i >= f["i"]:
                        continue
                    if kind == "cut" and not hi_i < f["i"]:
                        continue
                if self.flow_packets(fl, cid) != pk:
                    bc = [c for c in spec["conns"] if c["id"] == cid][0]
                    out.violate("bystander-unchanged", "bystander-%s-changed" % bc["proto"],
                                "%s: bystander conn %d exports %d packets, fault-free %d; %s" % (
                                    tag, cid, len(self.flow_packets(fl, cid)), len(pk), describe_conn(bc)), focus=[kind, f])
            meta_on = bool(spec.get("cli", {}).get("a"))
            if meta_on:
                # with -a handshake material is exported on purpose: the content oracles below are defined for the
                # plain export only; failure and bystander identity are still judged
                continue
            for key in fl.extra:
                out.violate("foreign-flows-export-nothing", "foreign-flow-exported", "%s: output flow %s" % (tag, key[2]), focus=[kind, f])
            for c in ex["truth"]["conns"]:
                if c["proto"] in ("http", "udp") and c["id"] in fl.by_conn:
                    out.violate("foreign-flows-export-nothing", "foreign-flow-exported", "%s: conn %d" % (tag, c["id"]), focus=[kind, f])
            if kind in INFO_REMOVING or (kind == "pair" and all(k2 in INFO_REMOVING for k2, _ in f["pair"])):
                vt = [c for c in ex["truth"]["conns"] if c["id"] == vid][0]
                if vt["proto"] == "tls":
                    got = fl.tcp_streams(vid)
                    for d in "cs":
                        if not vt["app"][d].startswith(got[d]):
                            out.violate("victim-exports-at-most-a-prefix", "not-a-prefix-of-true-plaintext",
                                        "%s: dir %s exports %d bytes which are not a prefix of the %d true bytes" % (
                                            tag, d, len(got[d]), len(vt["app"][d])), focus=[kind, f])
                elif vt["proto"] == "quic":
                    got = [(d, p) for d, p, _ in fl.udp_seq(vid)]
                    want = [(e["d"], e["payload"]) for e in vt.get("expected", [])]
                    ok = is_subsequence(got, want)
                    if not ok:
                        out.violate("victim-exports-at-most-a-prefix", "datagram-not-from-true-sequence",
                                    "%s: %d exported datagrams are not a subsequence of the %d true ones" % (
                                        tag, len(got), len(want)), focus=[kind, f])
        return out

    def focus_spec(self, spec, viol):
        if viol.focus:
            spec["only_fault"] = viol.focus
            return spec
        return None

    def reach_probe(self, out, ex0, kind, f, vid):
        if "i" not in f or f["i"] >= len(ex0["taplog"]):
            if kind == "keydrop" and len(f["keydrop"]) > 1:
                out.count("reach:keydrop_subset")
            return
        e = ex0["taplog"][f["i"]]
        for c in ex0["truth"]["conns"]:
            if c["id"] != e["conn"] or c["proto"] != "tls" or "lo" not in e:
                continue
            for r in c["records"]:
                if r["d"] == e["d"] and r["lo"] < e["hi"] and r["hi"] > e["lo"]:
                    if r["kind"] in ("hs", "ccs", "fin", "ehs"):
                        out.count("reach:fault_in_handshake")
                        if kind == "flip" and r["kind"] == "hs" and e["lo"] + f["off"] % max(1, e["hi"] - e["lo"]) >= r["lo"] + 5:
                            out.count("reach:flip_in_handshake_msg")
                    if r["lo"] < e["lo"] or r["hi"] > e["hi"]:
                        out.count("reach:fault_in_spanning_record")
                        if kind == "late" and r["lo"] < e["lo"]:
                            out.count("reach:late_start_mid_record")
                    if kind == "flip":
                        o = e["lo"] + f["off"] % max(1, e["hi"] - e["lo"])
                        if r["lo"] <= o < r["lo"] + 5:
                            out.count("reach:flip_in_record_header")
                    break


def vconn_has(line, ex, vid):
    for c in ex["truth"]["conns"]:
        if c["id"] == vid:
            cr = c.get("keys", {}).get("client_random")
            return bool(cr) and line.split(" ")[1] == cr
    return False


def is_subsequence(got, want):
    j = 0
    for g in got:
        while j < len(want) and want[j] != g:
            j += 1
        if j >= len(want):
            return False
        j += 1
    return True


PROP = C03()
