"""C09 - the export depends only on which secrets are supplied, not on how."""
import copy
import hashlib

from ..rng import Rng
from .. import gen, world
from ..harness import Outcome
from .base import Prop, run_export, failure_class, failure_detail, Flows, describe_conn


class C09(Prop):
    id = "C09"
    level = "exploration"
    rule = ("seam varied = the key channel of the simulated world: the same secrets are delivered as a canonical LF key-log "
            "file (baseline) and as ~10 variants (line permutation, CRLF, comment/blank/unrelated/duplicate lines, upper-case "
            "hex, one DSB before the packets with no -s option run from another working directory, several DSBs splitting "
            "the log, DSBs between packets for TLS-only captures, file+DSB combined); oracle: output bytes identical to the "
            "baseline's; one evaluation = one export; non-trivial = variant input differs from baseline input and the "
            "baseline exported data; distinct = (scenario, variant)")
    reach = ["perm", "crlf", "deco", "upper", "dsb_only_no_s", "dsb_split", "dsb_between_packets", "both", "no_final_newline", "dsb_no_final_newline", "both_partial_file", "dsb_plus_comment_only_dsb", "dsb_before_idb", "dsb_with_tsoffset", "quic_world",
             "other_cwd", "long_file_line_across_block_boundary",
             "dsb_per_connection_before_its_first_packet", "dsb_per_connection_behind_client_hello", "dsb_big_endian",
             "dsb_section_followed_by_empty_section"]

    def plan(self, tier):
        p = super().plan(tier)
        if tier == "quick":
            p["count"] = 170
        return p

    def gen(self, seed, idx, tier):
        R = Rng(seed, "C09")
        cfg = {"records_max": 5, "len_max": 1500, "isn_wrap": False, "seg_pct": 50, "quic_pct": 30, "quic": {"small": True}}
        spec = gen.gen_mixed_world(R.fork("world"), cfg, nconn=R.range(1, 3))
        spec["prop"] = "C09"
        has_quic = any(c["proto"] == "quic" for c in spec["conns"])
        V = R.fork("var")
        variants = [
            ["perm", {"mode": "file", "perm_seed": V.bits(30)}],
            ["crlf", {"mode": "file", "crlf": True}],
            ["deco", {"mode": "file", "deco": V.bits(30)}],
            ["upper", {"mode": "file", "upper": True}],
            ["dsb_only_no_s", {"mode": "dsb", "dsb": [[0, 0]], "cwd": "elsewhere/deeper"}],
            ["dsb_split", {"mode": "dsb", "dsb": [[0, 0], [0, 1], [0, 2]]}],
            ["both", {"mode": "both", "dsb": [[0, 0]]}],
            ["mix", {"mode": "file", "perm_seed": V.bits(30), "crlf": V.chance(50), "deco": V.bits(30),
                     "upper": V.chance(50)}],
            ["dsb_mix", {"mode": "dsb", "dsb": [[0, 0], [0, 1]], "perm_seed": V.bits(30), "crlf": V.chance(50),
                         "upper": V.chance(30)}],
        ]
        variants += [
            ["no_final_newline", {"mode": "file", "no_final_nl": True}],
            ["dsb_no_final_newline", {"mode": "dsb", "dsb": [[0, 0]], "no_final_nl": True, "perm_seed": V.bits(30)}],
            ["dsb_no_final_newline", {"mode": "dsb", "dsb": [[0, 0], [0, 1]], "no_final_nl": True, "crlf": V.chance(50)}],
            ["dsb_plus_comment_only_dsb", {"mode": "dsb", "dsb": [[0, 0]],
                                           "extra_dsb": [[0, V.choice(["# k\n", "#\n", "\n", "# exported by tap0\n", "# a\r\n\r\n"])]]}],
            ["dsb_before_idb", {"mode": "dsb", "dsb": [[0, 0], [0, 1]], "before_idb": True}],
            ["dsb_with_tsoffset", {"mode": "dsb", "dsb": [[0, 0]], "tsoffset": V.choice([1, -1, 3600, -86400, 100000])}],
            ["both_partial_file", {"mode": "both", "dsb": [[0, 0]], "file_part": V.choice([2, 3])}],
            ["both_partial_file", {"mode": "both", "dsb": [[0, 0], [0, 1]], "file_part": 2, "perm_seed": V.bits(30)}],
        ]
        variants += [
            ["long_file_line_across_block_boundary", {"mode": "file", "straddle": V.bits(30)}],
            ["long_file_line_across_block_boundary", {"mode": "file", "straddle": V.bits(30), "perm_seed": V.bits(30),
                                                      "crlf": V.chance(30)}],
        ]
        variants.append(["dsb_per_connection_before_its_first_packet", {"mode": "dsb", "dsb_per_conn": True}])
        variants.append(["dsb_per_connection_behind_client_hello", {"mode": "dsb", "dsb_per_conn": "after_first_flight"}])
        variants.append(["dsb_section_followed_by_empty_section", {"mode": "dsb", "dsb": [[0, 0]], "trailing_section": True}])
        variants.append(["dsb_big_endian", {"mode": "dsb", "dsb": [[0, 0], [0, 1]], "be": True, "perm_seed": V.bits(30)}])
        if not has_quic:
            npk = 60
            variants.append(["dsb_between_packets", {"mode": "dsb", "dsb": [[V.range(0, npk), 0], [V.range(0, npk), 1]]}])
            variants.append(["dsb_between_packets", {"mode": "dsb", "dsb": [[10 ** 6, 0]]}])
        spec["variants"] = variants
        return spec

    def primary_spec(self, spec):
        return spec

    def focus_spec(self, spec, viol):
        if viol.focus is not None:
            spec["variants"] = [viol.focus]
            return spec
        return None

    def check(self, lane, spec):
        out = Outcome()
        base = copy.deepcopy(spec)
        base["keychan"] = {"mode": "file"}
        ex0 = world.expand(base)
        out.sim_time_ns = ex0["stats"]["sim_time_ns"]
        res0 = run_export(lane, base, ex0, out)
        out.sample = {"seed": spec.get("seed"), "conns": [describe_conn(c) for c in spec["conns"]][:3],
                      "variants": [v[0] for v in spec.get("variants", [])]}
        if failure_class(res0):
            out.count("baseline_failed")
            return out
        h0 = hashlib.sha256(res0.out).hexdigest()
        try:
            fl0 = Flows(base, ex0["truth"], res0.out)
            exported = len(fl0.parsed) > 0
        except Exception:
            exported = False
        if any(c["proto"] == "quic" for c in spec["conns"]):
            out.count("reach:quic_world")
        baseline_ok = True
        for c in ex0["truth"]["conns"]:
            if c["proto"] == "tls" and fl0.tcp_streams(c["id"]) != c["app"]:
                baseline_ok = False
        if not baseline_ok:
            out.count("baseline_differs_from_truth")
        for name, kc in spec.get("variants", []):
            if lane.expired():
                out.count("enumeration_truncated_by_budget")
                break
            s2 = copy.deepcopy(spec)
            s2["keychan"] = {k: v for k, v in kc.items() if k not in ("cwd", "before_idb", "tsoffset", "be", "trailing_section")}
            if kc.get("be"):
                s2["container"] = dict(s2.get("container", {}), be=True)
            if kc.get("trailing_section"):
                s2["container"] = dict(s2.get("container", {}), trailing_section=True)
            if kc.get("tsoffset"):
                # the interface's if_tsoffset must not matter for key delivery (timestamps stay the same instants)
                s2["container"] = dict(s2.get("container", {}), tsoffset=kc["tsoffset"])
            if kc.get("before_idb"):
                s2["container"] = dict(s2.get("container", {}), dsb_before_idb=True)
            ex = world.expand(s2)
            kw = {}
            if kc.get("cwd"):
                kw["cwd_sub"] = kc["cwd"]
                out.count("reach:other_cwd")
            res = run_export(lane, s2, ex, out, **kw)
            out.count("reach:" + name)
            if (ex["keylog"] != ex0["keylog"] or ex["capture"] != ex0["capture"]) and exported:
                out.nontrivial = True
                out.add("variants", "%s:%s" % (spec.get("seed"), name))
                out.item("variant:%s:%s" % (name, sorted(kc.items())))
            fc = failure_class(res)
            tag = "variant %s %s" % (name, kc)
            if fc:
                out.violate("variant-run-does-not-fail", "%s:%s" % (name, fc), tag + "\n" + failure_detail(res), focus=[name, kc])
                continue
            if hashlib.sha256(res.out).hexdigest() != h0:
                n1 = n0 = -1
                try:
                    n1 = len(Flows(s2, ex["truth"], res.out).parsed)
                    n0 = len(fl0.parsed)
                except Exception:
                    pass
                out.violate("variant-output-identical-to-baseline", "differs:" + name,
                            "%s: output %d bytes / %d packets, baseline %d bytes / %d packets; stdout: %s" % (
                                tag, len(res.out), n1, len(res0.out), n0, (res.stdout or "")[-200:]), focus=[name, kc])
        return out


PROP = C09()
