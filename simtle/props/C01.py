"""C01 - TLS-over-TCP application data is exported exactly (all versions, all suites)."""
from ..rng import Rng
from .. import gen, world, tlsref as T
from ..harness import Outcome
from .base import Prop, run_export, failure_class, failure_detail, Flows, stream_mismatch_class, describe_conn, \
    apply_segmentation


class C01(Prop):
    id = "C01"
    level = "exploration"
    rule = ("scenario = 1-3 concurrent simulated TLS connections (version x suite x handshake shape x record history x "
            "TCP segmentation x IPv4/6) on a fault-free network; the first len(all_pairs) indices visit every valid "
            "(version, suite) pair once; non-trivial = at least one application record with >0 bytes was sent; "
            "distinct = distinct spec digests")
    reach = ["record_spans_3_segments", "three_records_one_segment", "one_byte_segments", "len_0", "len_16384",
             "cbc_extra_padding", "tls13_padding", "tls13_no_hs_secrets", "etm", "resume", "resumption_shares_master_secret", "sh_no_ext", "tickets",
             "ipv6", "merge_first", "multi_conn", "early_data_before_peer_finished",
             "encrypted_hello_request_mid_connection"]

    def plan(self, tier):
        p = super().plan(tier)
        if tier == "quick":
            p["count"] = 1100
            p["budget_s"] = 170
        return p

    def gen(self, seed, idx, tier):
        R = Rng(seed, "C01")
        pairs = gen.all_pairs()
        used = set()
        cfg = {"records_max": 12 if tier == "quick" else 40, "len_max": 16384, "isn_wrap": False, "shaped_pct": 20}
        nconn = 1 if idx < len(pairs) else R.weighted([(1, 60), (2, 25), (3, 15)])
        conns = []
        for j in range(nconn):
            pair = pairs[idx] if (idx < len(pairs) and j == 0) else None
            c = gen.gen_tls_conn(R.fork("conn", j), j, cfg, used, pair=pair)
            if conns and R.chance(35):
                if gen.make_resumption_of(R.fork("resume", j), c, R.choice(conns)):
                    pass
            if R.chance(75):
                apply_segmentation(R.fork("seg", j), c)
            conns.append(c)
        return {"prop": "C01", "conns": conns, "tap": gen.gen_tap(R.fork("tap")),
                "policy": R.choice(["concurrent", "concurrent", "sequential"])}

    def check(self, lane, spec):
        out = Outcome()
        ex = world.expand(spec)
        out.sim_time_ns = ex["stats"]["sim_time_ns"]
        res = run_export(lane, spec, ex, out)
        fc = failure_class(res)
        truth = ex["truth"]
        self.probes(spec, ex, out)
        out.sample = {"seed": spec.get("seed"), "conns": [describe_conn(c) for c in spec["conns"]],
                      "frames": ex["stats"]["frames"]}
        if fc:
            out.violate("no-failure", fc, failure_detail(res))
            return out
        try:
            fl = Flows(spec, truth, res.out)
        except Exception as e:
            out.violate("output-readable", "unreadable:%s" % getattr(e, "rule", type(e).__name__), str(e))
            return out
        for c in truth["conns"]:
            got = fl.tcp_streams(c["id"])
            for d in "cs":
                cls = stream_mismatch_class(got[d], c["app"][d])
                if cls:
                    conn = [x for x in spec["conns"] if x["id"] == c["id"]][0]
                    out.violate("stream-equals-truth", cls,
                                "conn %d dir %s: exported %d bytes, sent %d bytes; %s" % (
                                    c["id"], d, len(got[d]), len(c["app"][d]), describe_conn(conn)))
            if c["app"]["c"] or c["app"]["s"]:
                out.nontrivial = True
        if fl.extra:
            out.violate("no-foreign-flow", "extra-flow", "unexpected conversations: %d" % len(fl.extra))
        return out

    def probes(self, spec, ex, out):
        for conn, t in zip(spec["conns"], ex["truth"]["conns"]):
            out.add("version_suite_pairs", "%04x/%04x" % (conn["ver"], conn["suite"]))
            out.add("seg_policy", conn.get("tcp", {}).get("seg_policy", "record"))
            if conn["v6"]:
                out.count("reach:ipv6")
            if conn.get("etm"):
                out.count("reach:etm")
            if conn.get("resume"):
                out.count("reach:resume")
            if conn.get("resumes") is not None:
                out.count("reach:resumption_shares_master_secret")
            if conn.get("sh_ext") == "none":
                out.count("reach:sh_no_ext")
            if conn.get("tickets") and conn["ver"] == T.TLS13:
                out.count("reach:tickets")
            if conn.get("hello_req") and conn["ver"] != T.TLS13:
                out.count("reach:encrypted_hello_request_mid_connection")
            if conn["ver"] == T.TLS13 and not conn.get("hs_secrets", True):
                out.count("reach:tls13_no_hs_secrets")
            if conn.get("merge_first"):
                out.count("reach:merge_first")
            if conn.get("early_data_side"):
                out.count("reach:early_data_before_peer_finished")
            for r in conn.get("recs", []):
                if r["n"] == 0:
                    out.count("reach:len_0")
                if r["n"] == 16384:
                    out.count("reach:len_16384")
                if r.get("pad"):
                    out.count("reach:tls13_padding" if conn["ver"] == T.TLS13 else "reach:cbc_extra_padding")
            fr = t["frames"]
            for r in t["records"]:
                n = sum(1 for f in fr if f["d"] == r["d"] and f["lo"] < r["hi"] and f["hi"] > r["lo"])
                if n >= 3:
                    out.count("reach:record_spans_3_segments")
                    break
            for f in fr:
                n = sum(1 for r in t["records"] if r["d"] == f["d"] and f["lo"] <= r["lo"] and r["hi"] <= f["hi"])
                if n >= 3:
                    out.count("reach:three_records_one_segment")
                    break
            if any(f["hi"] - f["lo"] == 1 for f in fr):
                out.count("reach:one_byte_segments")
            tcp = conn.get("tcp", {})
            for d in "cs":
                if tcp.get("isn_" + d, 0) + 1 + len(t["streams"][d]) > (1 << 32):
                    out.count("reach:seq_wrap_in_conn")
        if len(spec["conns"]) > 1:
            out.count("reach:multi_conn")
        out.add("interleavings", world.interleave_signature(ex["taplog"]))


PROP = C01()
