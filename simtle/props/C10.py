"""C10 - server-port selection and port mapping behave as documented."""
import copy
from ..rng import Rng
from .. import gen, world
from ..harness import Outcome
from .base import Prop, run_export, failure_class, failure_detail, describe_conn, out_port, apply_segmentation
from .. import observer


class C10(Prop):
    id = "C10"
    level = "exploration"
    rule = ("seam varied = CLI configuration over simulated worlds with servers on default ports (443, 44330), ports listed "
            "with -p and unlisted ports, TLS and QUIC, several connections per capture; options: -p lists, -m absent / bare / "
            "1-4 a:b pairs with and without trailing commas; oracle: a flow is exported iff its server port is default or "
            "selected, with the documented output server port and an unchanged client port; non-trivial = at least one "
            "connection on a non-default port or -m given; distinct = spec digests")
    reach = ["m_absent", "m_bare", "m_pairs", "m_trailing_comma", "p_list", "server_on_unlisted_port", "server_on_p_port",
             "server_on_44330", "quic_conn", "mapped_port_hit", "mapped_default_8080", "first_segment_from_server",
             "after_run_with_other_port_map", "cli_subprocess_optimised", "quic_client_address_change",
             "same_client_socket_other_server_port", "quic_like_noise_to_unlisted_port",
             "quic_bit_greased_with_g"]

    def plan(self, tier):
        p = super().plan(tier)
        if tier == "quick":
            p["count"] = 1300
        return p

    def gen(self, seed, idx, tier):
        R = Rng(seed, "C10")
        n = R.range(1, 4)
        used = set()
        cfg = {"records_max": 3, "len_max": 600, "isn_wrap": False, "shapes": False}
        plist = [R.range(1, 65535) for _ in range(R.range(0, 3))]
        plist = [p for p in plist if p not in (443, 44330, 8080)]
        unl = R.range(1024, 65535)
        while unl in plist or unl in (443, 44330):
            unl = R.range(1024, 65535)
        conns = []
        quic_ok = self.quic_available()
        for j in range(n):
            port = R.weighted([(443, 30), (44330, 15), ("p", 35), ("u", 20)])
            if port == "p":
                port = R.choice(plist) if plist else 443
            elif port == "u":
                port = unl
            avoid = tuple(plist) + (unl,)
            if quic_ok and R.chance(35):
                from .. import quicpeer
                c = quicpeer.gen_quic_conn(R.fork("q", j), j, {"small": True, "migrate_pct": 25}, used, server_port=port,
                                           avoid_ports=avoid)
            else:
                kw = {}
                prev = [x for x in conns if x["proto"] == "tls" and x["s"]["port"] != port]
                SC = R.fork("samecp", j)
                if prev and SC.chance(25):
                    # the same client socket address (ip and port) towards another port of the same server
                    o = SC.choice(prev)
                    kw = {"client_ip": o["c"]["ip"], "client_port": o["c"]["port"], "server_ip": o["s"]["ip"]}
                    c2cfg = dict(cfg, v6_pct=100 if o["v6"] else 0)
                else:
                    c2cfg = cfg
                try:
                    c = gen.gen_tls_conn(R.fork("conn", j), j, c2cfg, used, server_port=port, avoid_ports=avoid, **kw)
                    if kw:
                        c["c"]["mac"], c["s"]["mac"] = o["c"]["mac"], o["s"]["mac"]
                        c["same_client_socket"] = True
                except (ValueError, RuntimeError):
                    c = gen.gen_tls_conn(R.fork("conn-alt", j), j, cfg, used, server_port=port, avoid_ports=avoid)
            if False:
                c = gen.gen_tls_conn(R.fork("conn", j), j, cfg, used, server_port=port, avoid_ports=avoid)
                # make sure something is exported for a selected connection
                if not any(r["n"] > 0 for r in c["recs"]):
                    c["recs"] = [{"k": 0, "d": "c", "n": 10}, {"k": 1, "d": "s", "n": 20}]
                    c["fl"] = [1, 1]
                if R.chance(40):
                    apply_segmentation(R.fork("seg", j), c)
            conns.append(c)
        cli = {}
        if plist:
            cli["p"] = plist
        m = R.weighted([("absent", 35), ("bare", 20), ("pairs", 45)])
        if m == "bare":
            cli["m"] = []
        elif m == "pairs":
            pairs = []
            srcs = [443, 44330] + plist + [unl, R.range(1, 65535)]
            for _ in range(R.range(1, 4)):
                a = R.choice(srcs)
                b = R.range(1, 65535)
                pairs.append("%d:%d%s" % (a, b, "," if R.chance(30) else ""))
            # later pairs for the same port override earlier ones in a dict; keep sources unique
            seen = set()
            uniq = []
            for pr in pairs:
                a = pr.split(":")[0]
                if a not in seen:
                    seen.add(a)
                    uniq.append(pr)
            cli["m"] = uniq
        if R.chance(20):
            cli["d"] = R.choice(["", "INFO", "DEBUG", "DEBUG", "WARNING"])
        NZ = R.fork("noise")
        on_unl = [c for c in conns if c["proto"] == "tls" and c["s"]["port"] == unl]
        if on_unl and NZ.chance(60):
            # unrelated UDP traffic to the same (unlisted) port number, seen before the TCP connection starts: a datagram
            # that looks like a QUIC long header must not make that port a TLS server port
            nz = gen.gen_udp_noise(NZ.fork("n"), len(conns), used, v6=on_unl[0]["v6"], port=unl)
            nz["dgrams"] = [["c", (bytes([0xC0 | NZ.below(16)]) + b"\x00\x00\x00\x01\x08" + NZ.bytes(8) + b"\x00" +
                                   NZ.bytes(NZ.range(10, 1100))).hex()]] + nz["dgrams"][:2]
            nz["t"]["start_us"] = 0
            for c in on_unl:
                c["t"]["start_us"] = max(c["t"].get("start_us", 0), 4000) + 4000
            conns.append(nz)
        GR = R.fork("grease")
        qc = [c for c in conns if c["proto"] == "quic" and not c["q"].get("retry")]
        if qc and GR.chance(35):
            # RFC 9287: the QUIC bit of every packet one endpoint (here the client, from its first Initial on) sends is
            # cleared; -g tells TLExport to accept such packets
            GR.choice(qc)["q"]["grease_bit"] = "c"
            cli["g"] = True
        spec = {"prop": "C10", "conns": conns, "tap": gen.gen_tap(R.fork("tap")), "cli": cli, "unlisted": unl}
        if on_unl and len(conns) and conns[-1]["proto"] == "udp":
            spec["quic_like_noise_to_unlisted_port"] = True
        E = R.fork("earlier")
        if "m" in cli and E.chance(40):
            # the same process exported before with another -m list (pairs for every server port of this world): the pairs
            # of an earlier run must not survive into this one
            spec["earlier_m"] = ["%d:%d" % (p, E.range(1024, 65000)) for p in sorted(set(c["s"]["port"] for c in conns))]
        if idx % 16 == 5 and cli.get("m"):
            spec["subprocess_optimised"] = True
        tls = [c for c in conns if c["proto"] == "tls"]
        if tls and R.chance(12):
            # the capture missed the client's first flight of one connection: the first segment seen comes from the
            # server; with -a its handshake records are still exported and must carry the documented ports
            v = R.choice(tls)
            ex = world.expand(spec)
            drop = []
            for e in ex["taplog"]:
                if e["conn"] == v["id"]:
                    if e["d"] == "s" and "ctl" not in e:
                        break
                    drop.append(e["i"])
            spec["faults"] = [{"k": "drop", "i": i} for i in drop]
            spec["first_from_server"] = v["id"]
            cli["a"] = True
        return spec

    def quic_available(self):
        import os
        return os.path.exists(os.path.join(os.path.dirname(os.path.dirname(__file__)), "quicpeer.py"))

    def check(self, lane, spec):
        out = Outcome()
        ex = world.expand(spec)
        out.sim_time_ns = ex["stats"]["sim_time_ns"]
        cli = spec.get("cli", {})
        if spec.get("earlier_m"):
            s0 = copy.deepcopy(spec)
            s0["cli"] = dict(cli, m=spec["earlier_m"])
            ex_e = world.expand(s0)
            rr = lane.sut(spec.get("hashseed", 0)).run(ex_e["capture"], ex_e["keylog"], ex_e["argv"],
                                                       extra_runs=[dict(capture=ex["capture"], keylog=ex["keylog"],
                                                                        argv_opts=ex["argv"])])
            out.exports += 2
            out.count("reach:after_run_with_other_port_map")
            res = rr[1]
        else:
            res = run_export(lane, spec, ex, out)
        out.sample = {"seed": spec.get("seed"), "cli": cli,
                      "servers": [[c["proto"], c["s"]["port"], c["c"]["port"]] for c in spec["conns"]]}
        if "m" not in cli:
            out.count("reach:m_absent")
        elif not cli["m"]:
            out.count("reach:m_bare")
        else:
            out.count("reach:m_pairs")
            if any("," in x for x in cli["m"]):
                out.count("reach:m_trailing_comma")
        if cli.get("p"):
            out.count("reach:p_list")
        if spec.get("first_from_server") is not None:
            out.count("reach:first_segment_from_server")
        if spec.get("quic_like_noise_to_unlisted_port"):
            out.count("reach:quic_like_noise_to_unlisted_port")
        selected = set([443, 44330] + list(cli.get("p", [])))
        fc = failure_class(res)
        if fc:
            out.violate("run-does-not-fail", fc, failure_detail(res))
            return out
        self.judge(out, spec, ex, res.out, "")
        if spec.get("subprocess_optimised"):
            # a fresh interpreter with assert statements stripped (python -O / PYTHONOPTIMIZE=1)
            from .. import sut as SUT
            code, data, log = SUT.run_cli_subprocess(ex["capture"], ex["keylog"], ex["argv"], hashseed=spec.get("seed", 0) % 1000,
                                                     env_extra={"PYTHONOPTIMIZE": "1"})
            out.exports += 1
            out.count("reach:cli_subprocess_optimised")
            if code != 0 or data is None:
                out.violate("run-does-not-fail", "cli-subprocess:exit-%s" % code, log[-800:])
            else:
                self.judge(out, spec, ex, data, "python -O: ")
        return out

    def judge(self, out, spec, ex, data, pre):
        cli = spec.get("cli", {})
        selected = set([443, 44330] + list(cli.get("p", [])))
        errors = []
        try:
            parsed, tcp, udp = observer.observe(data, errors)
        except Exception as e:
            out.violate("output-readable", "unreadable", pre + str(e))
            return out
        flows = {}
        for p in parsed:
            flows.setdefault((p["proto"], p["v6"], p["ip_src"], p["sport"], p["ip_dst"], p["dport"]), 0)
            flows[(p["proto"], p["v6"], p["ip_src"], p["sport"], p["ip_dst"], p["dport"])] += 1
        accounted = set()
        for c in spec["conns"]:
            proto = 6 if c["proto"] == "tls" else 17
            cip, sip = bytes.fromhex(c["c"]["ip"]), bytes.fromhex(c["s"]["ip"])
            cp, sp = c["c"]["port"], c["s"]["port"]
            if c["proto"] == "quic":
                out.count("reach:quic_conn")
                if c.get("c_mig"):
                    out.count("reach:quic_client_address_change")
                if c["q"].get("grease_bit"):
                    out.count("reach:quic_bit_greased_with_g")
            if c.get("same_client_socket"):
                out.count("reach:same_client_socket_other_server_port")
            if sp == spec.get("unlisted"):
                out.count("reach:server_on_unlisted_port")
            elif sp == 44330:
                out.count("reach:server_on_44330")
            elif sp != 443:
                out.count("reach:server_on_p_port")
            if sp != 443 or "m" in cli:
                out.nontrivial = True
            mine = [k for k in flows if k[0] == proto and ((k[2] == cip and k[3] == cp and k[4] == sip) or
                                                           (k[4] == cip and k[5] == cp and k[2] == sip))]
            shared = [x for x in spec["conns"] if x["id"] != c["id"] and x["proto"] == c["proto"] and
                      (x["c"]["ip"], x["c"]["port"], x["s"]["ip"]) == (c["c"]["ip"], c["c"]["port"], c["s"]["ip"])]
            if shared:
                # several connections from one client socket to one server host: its flows are told apart by the
                # (documented) exported server port; a flow with any other port stays unaccounted and is reported
                w_ = out_port(spec, sp)
                mine = [k for k in mine if (k[5] if k[2] == cip else k[3]) == w_]
            accounted.update(mine)
            tag = pre + "%s conn %d client port %d server port %d, options %s" % (c["proto"], c["id"], cp, sp, cli)
            if sp not in selected and c["proto"] == "tls" and shared and any(
                    x["s"]["port"] in selected and out_port(spec, x["s"]["port"]) == out_port(spec, sp) for x in shared):
                # its (absent) flow could not be told from the flow of the selected connection on the same client socket
                out.count("unselected_connection_shares_socket_and_output_port")
                continue
            if sp not in selected and c["proto"] == "tls":
                # the port selection rule is stated for TCP/TLS only; QUIC is recognised on any UDP port
                if mine:
                    out.violate("unselected-port-not-exported", "exported-although-port-not-selected:" + c["proto"], tag)
                continue
            want = out_port(spec, sp)
            if "m" in cli:
                out.count("reach:mapped_default_8080" if want == 8080 and not any(
                    x.replace(",", "").startswith("%d:" % sp) for x in (cli["m"] or ["443:8080"])) else "reach:mapped_port_hit")
            tc = [x for x in ex["truth"]["conns"] if x["id"] == c["id"]][0]
            has_data = bool(tc["app"]["c"] or tc["app"]["s"]) if c["proto"] == "tls" else bool(tc.get("expected"))
            if not mine:
                if has_data and spec.get("first_from_server") != c["id"]:
                    out.violate("selected-port-exported", "no-output-for-selected-port:" + c["proto"], tag)
                continue
            for k in mine:
                srv_port = k[5] if k[2] == cip else k[3]
                cl_port = k[3] if k[2] == cip else k[5]
                if cl_port != cp:
                    out.violate("client-port-unchanged", "client-port-changed:" + c["proto"], tag + " got %d" % cl_port)
                if srv_port != want:
                    out.violate("server-port-as-documented", "server-port-wrong:%s:%s" % (
                        c["proto"], "with-m" if "m" in cli else "without-m"), tag + ": exported server port %d, expected %d" % (srv_port, want))
        for k in flows:
            if k not in accounted:
                out.violate("no-unrelated-flow", "unrelated-flow", "flow %s" % (k[3:6:2],))
        return out


PROP = C10()
