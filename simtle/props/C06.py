"""C06 - the output is always a well-formed pcapng of well-formed, reassemblable packets."""
import os

from ..rng import Rng
from .. import gen, world, observer, tlsref as T
from ..harness import Outcome
from .base import Prop, run_export, failure_class, failure_detail, Flows, describe_conn, attribute_segments, \
    input_packets_of_record, random_cli

KS = list(range(1, 13))


class C06(Prop):
    id = "C06"
    level = "exploration"
    rule = ("mixed battery: healthy worlds (TLS, QUIC, noise), worlds with 1-3 injected faults (lost/duplicated/cut/"
            "corrupted packets, missing keys), foreign-only worlds, the empty capture, all with random option combinations "
            "(-p -m -c -a -g), plus a sweep over record length n x carrying packets k (k in 1..12); every output is read by "
            "the strict pcapng reader, frame parser and TCP reassembler; non-trivial = the output contains at least one "
            "packet; distinct = distinct scenario digests")
    reach = ["mode_healthy", "mode_faulty", "mode_foreign", "mode_empty", "mode_nk", "mode_bulk", "mode_huge", "export_in_place", "output_path_holds_older_longer_file", "opt_m", "opt_c", "opt_a", "opt_g",
             "opt_p", "opt_l", "opt_d", "output_has_tcp", "output_has_udp", "zero_length_record", "record_smaller_than_k"]

    def plan(self, tier):
        p = super().plan(tier)
        if tier == "quick":
            p["count"] = 1500
        return p

    def gen(self, seed, idx, tier):
        R = Rng(seed, "C06")
        mode = ["healthy", "faulty", "nk", "healthy", "foreign", "faulty", "nk", "empty" if idx % 80 == 7 else "healthy"][idx % 8]
        if tier != "quick" and idx % 4000 == 1500 and os.environ.get("VERIF_HUGE") == "1":
            # (opt-in: one such export costs about five CPU minutes, mostly TLExport's own output construction)
            # a very long conversation: more than 65535 exported frames (33 000 one-segment records and their ACK
            # companions), so that per-conversation counters of the output (IP identification, ...) pass 2^16
            mode = "huge"
            used = set()
            c = gen.gen_tls_conn(R.fork("conn"), 0, {"records_max": 0, "shapes": False, "tls13_pad": False, "etm_pct": 0,
                                                     "ticket_pct": 0, "isn_wrap": False},
                                 used, pair=R.choice([(T.TLS12, 0x009C), (T.TLS13, 0x1301), (T.TLS12, 0xCCA8)]))
            d = R.choice("cs")
            c["recs"] = [{"k": i, "d": d, "n": 1 + (i % 3)} for i in range(33000)]
            c["fl"] = [500] * 66
            c["close"] = False
            c["merge_first"] = False
            c["hello_req"] = None
            spec = {"prop": "C06", "mode": mode, "conns": [c], "tap": gen.gen_tap(R.fork("tap")), "cli": {}}
            return spec
        if idx % 16 == 3:
            # one direction carries more than 64 KiB (up to ~150 KiB): running totals of the output's sequence and
            # acknowledgement numbers pass 2^16 and 2^17
            mode = "bulk"
            used = set()
            c = gen.gen_tls_conn(R.fork("conn"), 0, {"records_max": 3, "len_max": 600, "isn_wrap": False}, used)
            d = R.choice("cs")
            big = [{"k": 0, "d": d, "n": R.range(9000, 16384)} for j in range(R.range(5, 9))]
            at = R.range(1, len(c["recs"])) if c["recs"] else 0
            c["recs"] = c["recs"][:at] + big + c["recs"][at:]
            for i, r in enumerate(c["recs"]):
                r["k"] = i
            c["fl"] = [1] * at + [len(big)] + [1] * (len(c["recs"]) - at - len(big))
            if R.chance(70):
                # full-sized segments: hardly any segment ends on a record boundary, the direction stays buffered
                from .base import apply_segmentation
                apply_segmentation(R.fork("seg"), c, policy=R.choice(["mss", "mss", "random", "coalesce"]))
            spec = {"prop": "C06", "mode": mode, "conns": [c], "tap": gen.gen_tap(R.fork("tap"))}
            spec["cli"] = random_cli(R.fork("cli"), [c], allow=("m", "g", "a"))
            return spec
        if mode == "nk":
            k = KS[(idx // 8) % len(KS)]
            n = R.choice([0, 1, max(0, k - 1), k, k + 1, 2 * k - 1, 2 * k, 2 * k + 1, R.range(0, 60), R.range(0, 3000),
                          16384, 16383])
            used = set()
            pair = R.choice([(T.TLS12, 0x009C), (T.TLS13, 0x1301), (T.TLS10, 0x002F), (T.TLS12, 0xCCA8), (T.TLS11, 0x0005)])
            c = gen.gen_tls_conn(R.fork("conn"), 0, {"records_max": 0, "shapes": False, "tls13_pad": False, "etm_pct": 0,
                                                     "ticket_pct": 0, "isn_wrap": False}, used, pair=pair)
            d = R.choice("cs")
            c["recs"] = [{"k": 0, "d": d, "n": n}] + ([{"k": 1, "d": R.choice("cs"), "n": R.range(0, 50)}] if R.chance(50) else [])
            c["fl"] = [1] * len(c["recs"])
            c["close"] = False
            c["merge_first"] = False
            c["nk"] = [n, k]
            from .. import tlsconn
            fl, _, _ = tlsconn.build(c)
            units, streams, rr = world.tcp_units(c, fl)
            tgt = [x for x in rr if x[3].kind == "app" and x[3].k == 0][0]
            lo, hi = tgt[1], tgt[2]
            cuts = {"c": [], "s": []}
            bounds = sorted(set(x[2] for x in rr if x[0] == d))
            cuts[d] = [b for b in bounds]
            k_eff = min(k, hi - lo)
            cuts[d] += [lo + (hi - lo) * j // k_eff for j in range(1, k_eff)]
            od = "s" if d == "c" else "c"
            cuts[od] = sorted(set(x[2] for x in rr if x[0] == od))
            c["tcp"]["cutmode"] = "explicit"
            c["tcp"]["cuts"] = {dd: sorted(set(v)) for dd, v in cuts.items()}
            spec = {"prop": "C06", "mode": mode, "conns": [c], "tap": gen.gen_tap(R.fork("tap"))}
            spec["cli"] = random_cli(R.fork("cli"), [c], allow=("m", "g"))
            return spec
        if mode == "empty":
            return {"prop": "C06", "mode": mode, "conns": [], "tap": gen.gen_tap(R.fork("tap")),
                    "cli": random_cli(R.fork("cli"), [])}
        if mode == "foreign":
            used = set()
            conns = []
            for j in range(R.range(1, 3)):
                if R.chance(50):
                    conns.append(gen.gen_http_conn(R.fork("h", j), j, used, port=R.choice([443, 44330]), v6=R.chance(30)))
                else:
                    conns.append(gen.gen_udp_noise(R.fork("u", j), j, used, v6=R.chance(30)))
            return {"prop": "C06", "mode": mode, "conns": conns, "tap": gen.gen_tap(R.fork("tap")),
                    "cli": random_cli(R.fork("cli"), conns)}
        cfg = {"records_max": 10, "len_max": 4000, "isn_wrap": False,
               "net": {"delay": 30, "lost_before": 10, "dup": 30, "dup_rto": 15, "dup_late": 10, "_D": 4}, "net_pct": 40}
        spec = gen.gen_mixed_world(R.fork("world"), cfg, with_noise=True)
        spec["prop"] = "C06"
        spec["mode"] = mode
        spec["cli"] = random_cli(R.fork("cli"), [c for c in spec["conns"] if c["proto"] in ("tls", "quic")])
        if R.chance(25):
            spec["container"] = R.choice([{"fmt": "pcap"}, {"fmt": "pcap", "ns": True, "be": True}, {"be": True},
                                          {"tsresol": ["dec", 9]}, {"blocks_seed": R.bits(30), "epb_opts": True},
                                          {"first_idb_linktype": R.choice([0, 101, 113, 228])},
                                          {"first_idb_linktype": R.choice([0, 101, 113]), "blocks_seed": R.bits(30)}])
        if mode == "faulty":
            ex = world.expand(spec)
            n = len(ex["taplog"])
            F = R.fork("faults")
            faults = []
            for _ in range(F.range(1, 3)):
                if n == 0:
                    break
                k = F.weighted([("drop", 30), ("cut", 15), ("late", 10), ("flip", 20), ("overwrite", 10), ("shorten", 5),
                                ("dupframe", 10)])
                f = {"k": k, "i": F.below(n)}
                if k == "flip":
                    f.update(off=F.below(2000), bit=F.below(8), fix=True)
                elif k == "overwrite":
                    f.update(off=F.below(2000), n=F.range(1, 40), seed=F.bits(30))
                elif k == "shorten":
                    f.update(n=F.range(1, 50))
                faults.append(f)
            spec["faults"] = faults
            if F.chance(40):
                tl = [c for c in spec["conns"] if c["proto"] in ("tls", "quic")]
                if tl:
                    v = F.choice(tl)
                    lab = F.choice(["CLIENT_RANDOM", "CLIENT_TRAFFIC_SECRET_0", "SERVER_TRAFFIC_SECRET_0",
                                    "CLIENT_HANDSHAKE_TRAFFIC_SECRET", "SERVER_HANDSHAKE_TRAFFIC_SECRET"])
                    spec["keychan"] = {"mode": "file", "drop": [[v["id"], lab]]}
        return spec

    def check(self, lane, spec):
        out = Outcome()
        ex = world.expand(spec)
        out.sim_time_ns = ex["stats"]["sim_time_ns"]
        kw = {}
        if spec.get("idx", 0) % 5 == 2 and spec.get("container", {}).get("fmt") != "pcap":
            # the output path already holds a longer, valid pcapng from an earlier export (here: three sections)
            kw["pre_out"] = ex["capture"] * 3
            out.count("reach:output_path_holds_older_longer_file")
        if spec.get("idx", 0) % 25 == 9 and spec.get("container", {}).get("fmt") != "pcap" and "pre_out" not in kw:
            # -i X -o X: the export replaces the capture it was made from
            kw["inplace"] = True
            out.count("reach:export_in_place")
        if spec.get("mode") == "huge":
            kw["cpu"] = 600
        res = run_export(lane, spec, ex, out, infile_name="in.pcap" if spec.get("container", {}).get("fmt") == "pcap" else "in.pcapng", **kw)
        out.count("reach:mode_" + spec.get("mode", "?"))
        cli = spec.get("cli", {})
        for o in ("m", "c", "a", "g", "p"):
            if cli.get(o) or (o == "m" and "m" in cli and cli["m"] is not None):
                out.count("reach:opt_" + o)
        if cli.get("d") is not None:
            out.count("reach:opt_d")
        if spec.get("container", {}).get("fmt") == "pcap":
            out.count("reach:opt_l")
        for k, v in ex["stats"].get("fault_fired", {}).items():
            out.count("fault:tap_" + k, v)
        out.sample = {"seed": spec.get("seed"), "mode": spec.get("mode"), "cli": cli,
                      "conns": [describe_conn(c) for c in spec["conns"]][:3], "faults": spec.get("faults")}
        fc = failure_class(res)
        if fc:
            out.violate("output-file-valid", "no-output:" + fc, failure_detail(res))
            return out
        errors = []
        try:
            parsed, tcp, udp = observer.observe(res.out, errors)
        except observer.Malformed as m:
            out.violate("output-file-valid", "pcapng:" + m.rule, str(m))
            return out
        if parsed:
            out.nontrivial = True
        if tcp:
            out.count("reach:output_has_tcp")
        if udp:
            out.count("reach:output_has_udp")
        seen = set()
        for m in errors:
            if m.rule not in seen:
                seen.add(m.rule)
                out.violate("packets-well-formed-and-reassemblable", m.rule, str(m))
        if errors:
            return out
        # re-splitting arithmetic (only without -a, where the exported stream is exactly the application data)
        if not cli.get("a"):
            fl = Flows(spec, ex["truth"], res.out)
            for c in ex["truth"]["conns"]:
                if c["proto"] != "tls" or c["id"] not in fl.by_conn:
                    continue
                conv, cep, sep = fl.by_conn[c["id"]]
                for d, e_ in (("c", cep), ("s", sep)):
                    recs = [r for r in c["records"] if r["d"] == d and r["kind"] == "app"]
                    segs = [(p, ts, pk) for (s_, p, ts, pk) in conv.segs if s_ == e_]
                    stream = b"".join(p for p, _, _ in segs)
                    if not c["app"][d].startswith(stream):
                        continue        # wrong/partial data is C01/C03's business
                    try:
                        att = attribute_segments(segs, recs)
                    except ValueError as ve:
                        out.violate("record-resplit-into-at-most-k-segments", str(ve),
                                    "conn %d dir %s %s" % (c["id"], d, describe_conn([x for x in spec["conns"] if x["id"] == c["id"]][0])))
                        continue
                    per = {}
                    for cands, (p, _, _) in zip(att, segs):
                        if len(p) and cands:
                            per[cands[0]] = per.get(cands[0], 0) + 1
                    for i, r in enumerate(recs):
                        k, _ = input_packets_of_record(c, r)
                        n = r["app_hi"] - r["app_lo"]
                        if n == 0:
                            out.count("reach:zero_length_record")
                        if n < k:
                            out.count("reach:record_smaller_than_k")
                        if per.get(i, 0) > max(k, 0):
                            out.violate("record-resplit-into-at-most-k-segments", "more-segments-than-packets",
                                        "conn %d dir %s record %d: %d bytes carried by %d packets exported as %d segments" % (
                                            c["id"], d, i, n, k, per[i]))
                    # all segments of a record (incl. empty ones) must not exceed k either
                    tot = {}
                    for cands in att:
                        if len(cands) == 1:
                            tot[cands[0]] = tot.get(cands[0], 0) + 1
                    for i, r in enumerate(recs):
                        k, _ = input_packets_of_record(c, r)
                        if tot.get(i, 0) > k and k > 0:
                            out.violate("record-resplit-into-at-most-k-segments", "more-segments-than-packets",
                                        "conn %d dir %s record %d: %d segments (incl. empty) for %d packets" % (c["id"], d, i, tot[i], k))
        return out


PROP = C06()
