"""C12 - the export does not depend on the capture container."""
import copy
import hashlib

from ..rng import Rng
from .. import gen, world
from ..harness import Outcome
from .base import Prop, run_export, failure_class, failure_detail, Flows, describe_conn


class C12(Prop):
    id = "C12"
    level = "exploration"
    rule = ("seam varied = the tap's storage: the same frames with the same integer-microsecond timestamps are written as "
            "little-endian pcapng with if_tsresol 10^-6 (baseline) and as ~10 variants: big-endian pcapng, if_tsresol 10^-3 "
            "(only when all stamps are multiples of 1 ms), 10^-9, 2^-24..2^-30, if_tsoffset +-k s, SHB/IDB/EPB options, "
            "NRB/ISB/custom/unknown blocks at random positions, legacy pcap us/ns magic in both byte orders (with -l); "
            "oracle: output bytes identical to the baseline's; one evaluation = one export; non-trivial = the variant's "
            "container bytes differ and the baseline exported packets; distinct = (scenario, variant)")
    reach = ["be", "dec3", "dec9", "bin", "tsoffset", "tsoffset_option_before_tsresol", "first_interface_not_ethernet", "two_sections", "capture_clock_steps",
             "baseline_after_variant_in_one_process", "blocks", "opts", "pcap_us_le", "pcap_us_be", "pcap_ns_le",
             "pcap_ns_be", "quic_world"]

    def plan(self, tier):
        p = super().plan(tier)
        if tier == "quick":
            p["count"] = 170
        return p

    def gen(self, seed, idx, tier):
        R = Rng(seed, "C12")
        cfg = {"records_max": 5, "len_max": 1500, "isn_wrap": False, "seg_pct": 50, "quic_pct": 30, "quic": {"small": True}}
        spec = gen.gen_mixed_world(R.fork("world"), cfg, nconn=R.range(1, 3))
        spec["prop"] = "C12"
        ms = R.chance(25)
        if ms:
            spec["tap"]["res_us"] = 1000
            spec["tap"]["epoch_us"] -= spec["tap"]["epoch_us"] % 1000
        ST = R.fork("steps")
        if ST.chance(25):
            # the capture clock steps (NTP correction, two captures appended): later packets may carry earlier stamps,
            # also across a 2^32 tick boundary of the 64 bit timestamp (4295 s at 10^-6, 4.3 s at 10^-9)
            ex_ = world.expand(spec)
            n_ = max(1, len(ex_["taplog"]))
            k_ = 1000 if ms else 1
            spec["tap"]["steps"] = [[ST.below(n_), ST.choice([-1, 1]) * ST.choice([5000000, 3600000000, 10800000000, 7000000]) // k_ * k_]
                                    for _ in range(ST.range(1, 2))]
            spec["clock_steps"] = True
        V = R.fork("var")
        esec = spec["tap"]["epoch_us"] // 1000000

        def offs(*cands):
            # the timestamp relative to if_tsoffset is an unsigned field: keep it positive
            ok = [o for o in cands if esec - o > 86400]
            return V.choice(ok)
        vs = [
            ["be", {"be": True}],
            ["dec9", {"tsresol": ["dec", 9], "be": V.chance(30)}],
            ["bin", {"tsresol": ["bin", V.range(24, 30)], "be": V.chance(30)}],
            ["tsoffset", {"tsoffset": offs(-1, 1, -3600, 3600, 86400, -86400, 1000000000, -1000000000, 900000000), "be": V.chance(30)}],
            ["opts", {"shb_opts": True, "epb_opts": V.chance(60), "idb_name": True, "tsresol": ["dec", 6]}],
            ["blocks", {"blocks": V.bits(30), "be": V.chance(30)}],
            ["pcap_us_le", {"fmt": "pcap"}],
            ["pcap_us_be", {"fmt": "pcap", "be": True}],
            ["pcap_ns_le", {"fmt": "pcap", "ns": True}],
            ["pcap_ns_be", {"fmt": "pcap", "ns": True, "be": True}],
            ["mix", {"be": V.chance(50), "tsresol": ["dec", V.choice([6, 7, 8, 9])], "blocks": V.bits(30),
                     "tsoffset": offs(0, -5, 7200), "epb_opts": V.chance(50), "tsoffset_first": V.chance(50)}],
            ["first_interface_not_ethernet", dict({"first_idb_linktype": V.choice([0, 101, 113, 228, 127]), "be": V.chance(30)},
                                                  **V.choice([{}, {"tsresol": ["dec", 6]}, {"tsresol": ["dec", 9]}]))],
            ["two_sections", {"sections": V.range(1, 40), "be": V.chance(30)}],
            ["tsoffset_option_before_tsresol", {"be": V.chance(30), "tsresol": V.choice([["dec", 9], ["dec", 7], ["bin", 24]]),
                                                "tsoffset": offs(-1, 3600, -86400, 1000000000), "tsoffset_first": True}],
        ]
        if ms:
            vs.append(["dec3", {"tsresol": ["dec", 3], "be": V.chance(30)}])
            vs.append(["dec3", {"tsresol": ["dec", 4]}])
        spec["variants"] = vs
        return spec

    def focus_spec(self, spec, viol):
        if viol.focus is not None:
            spec["variants"] = [viol.focus]
            return spec
        return None

    def with_container(self, spec, cont):
        s2 = copy.deepcopy(spec)
        c = {k: (tuple(v) if k == "tsresol" else v) for k, v in cont.items() if k != "blocks"}
        s2["container"] = c
        if cont.get("blocks") is not None:
            s2["container"]["blocks_seed"] = cont["blocks"]
        return s2

    def check(self, lane, spec):
        out = Outcome()
        base = copy.deepcopy(spec)
        base["container"] = {}
        ex0 = world.expand(base)
        out.sim_time_ns = ex0["stats"]["sim_time_ns"]
        res0 = run_export(lane, base, ex0, out)
        out.sample = {"seed": spec.get("seed"), "conns": [describe_conn(c) for c in spec["conns"]][:3],
                      "variants": [v[0] for v in spec.get("variants", [])], "tap": spec.get("tap")}
        if failure_class(res0):
            out.count("baseline_failed")
            return out
        h0 = hashlib.sha256(res0.out).hexdigest()
        try:
            n0 = len(Flows(base, ex0["truth"], res0.out).parsed)
        except Exception:
            n0 = 0
        if any(c["proto"] == "quic" for c in spec["conns"]):
            out.count("reach:quic_world")
        if spec.get("clock_steps"):
            out.count("reach:capture_clock_steps")
        for name, cont in spec.get("variants", []):
            if lane.expired():
                out.count("enumeration_truncated_by_budget")
                break
            s2 = self.with_container(spec, cont)
            ex = world.expand(s2)
            res = run_export(lane, s2, ex, out, infile_name="in.pcap" if cont.get("fmt") == "pcap" else "in.pcapng")
            out.count("reach:" + name)
            if ex["capture"] != ex0["capture"] and n0 > 0:
                out.nontrivial = True
                out.add("variants", "%s:%s" % (spec.get("seed"), name))
                out.item("variant:%s:%s" % (name, sorted(cont.items())))
            tag = "container variant %s %s" % (name, cont)
            fc = failure_class(res)
            if fc:
                out.violate("variant-run-does-not-fail", "%s:%s" % (name, fc), tag + "\n" + failure_detail(res),
                            focus=[name, cont])
                continue
            if hashlib.sha256(res.out).hexdigest() != h0:
                d = ""
                cls = "differs:" + name
                try:
                    f1 = Flows(s2, ex["truth"], res.out)
                    f0 = Flows(base, ex0["truth"], res0.out)
                    if len(f1.parsed) != len(f0.parsed):
                        cls = "packet-count-differs:" + name
                    elif [p["raw"] for p in f1.parsed] == [p["raw"] for p in f0.parsed]:
                        cls = "timestamps-differ:" + name
                        dd = [(a["ts_us"], b["ts_us"]) for a, b in zip(f1.parsed, f0.parsed) if a["ts_us"] != b["ts_us"]]
                        d = "first differing timestamps (variant, baseline): %s" % dd[:3]
                except Exception:
                    pass
                out.violate("variant-output-identical-to-baseline", cls, tag + " " + d, focus=[name, cont])
        # the same process exported a capture with other interface options before: nothing of them may stick
        done = 0
        for name, cont in spec.get("variants", []):
            if done >= 2 or lane.expired():
                break
            if cont.get("fmt") == "pcap" or not (cont.get("tsresol") or cont.get("tsoffset")):
                continue
            done += 1
            s2 = self.with_container(spec, cont)
            ex = world.expand(s2)
            rr = lane.sut(spec.get("hashseed", 0)).run(ex["capture"], ex["keylog"], ex["argv"],
                                                       extra_runs=[dict(capture=ex0["capture"], keylog=ex0["keylog"],
                                                                        argv_opts=ex0["argv"])])
            out.exports += 2
            out.count("reach:baseline_after_variant_in_one_process")
            r2 = rr[1]
            fc = failure_class(r2)
            if fc:
                out.violate("variant-run-does-not-fail", "baseline-after-%s:%s" % (name, fc), failure_detail(r2),
                            focus=[name, cont])
            elif hashlib.sha256(r2.out).hexdigest() != h0:
                out.violate("variant-output-identical-to-baseline", "differs:baseline-after-variant-in-one-process",
                            "baseline container exported after variant %s %s in the same process" % (name, cont),
                            focus=[name, cont])
        return out


PROP = C12()
