"""Simulated QUIC v1 endpoints: spec generation, datagram construction from the spec, ground truth, key oracle."""
import copy
import struct

from .rng import Rng
from . import quicref as Q
from . import tlsref as T
from . import gen as G

SPACE = {"init": "INITIAL", "hs": "HANDSHAKE", "0rtt": "RTT_1", "1rtt": "RTT_1"}


# ------------------------------------------------------------------------------------------------------------------
# generation
# ------------------------------------------------------------------------------------------------------------------

def _cid_len(R, zero_pct):
    if R.chance(zero_pct):
        return 0
    return R.weighted([(8, 35), (4, 10), (1, 6), (2, 4), (16, 10), (20, 10), (R.range(1, 20), 25)])


def gen_frames(R, kind, stream_state, small=False, allow_stream=True):
    """random legal frame sequence for a 1-RTT (kind='1rtt') or 0-RTT packet; -> list of frame specs"""
    fr = []
    n_other = R.weighted([(0, 25), (1, 30), (2, 20), (3, 15), (R.range(4, 7), 10)])
    n_stream = R.weighted([(0, 15), (1, 50), (2, 20), (3, 15)]) if allow_stream else 0

    def w():
        return R.weighted([(0, 70), (1, 5), (2, 10), (4, 8), (8, 7)])

    others = []
    for _ in range(n_other):
        k = R.weighted([("ack", 30 if kind == "1rtt" else 0), ("ping", 10), ("pad", 10), ("max_data", 8),
                        ("max_stream_data", 8), ("max_streams", 6), ("data_blocked", 3), ("stream_data_blocked", 3),
                        ("streams_blocked", 3), ("reset_stream", 3), ("stop_sending", 3),
                        ("datagram", 8), ("path_challenge", 3), ("path_response", 3 if kind == "1rtt" else 0),
                        ("retire_cid", 3 if kind == "1rtt" else 0), ("new_token", 2 if kind == "1rtt" else 0)])
        if k == "ack":
            others.append(["ack", R.range(0, 5000), R.range(0, 3000), R.range(0, 20),
                           [[R.range(0, 10), R.range(0, 10)] for _ in range(R.range(0, 3))],
                           [R.weighted([(R.range(0, 63), 40), (R.range(64, 20000), 60)]), R.range(0, 70), R.range(0, 3)]
                           if R.chance(20) else None, w()])
        elif k == "ping":
            others.append(["ping"])
        elif k == "pad":
            others.append(["pad", R.range(1, 30)])
        elif k == "datagram":
            others.append(["datagram", R.range(0, 60 if small else 300), True, w()])
        elif k in ("path_challenge", "path_response"):
            others.append([k])
        elif k == "new_token":
            others.append(["new_token", R.range(1, 60), w()])
        else:
            others.append([k, R.range(0, 1 << 20), R.range(0, 1 << 20), R.range(0, 1 << 20), w()])
    streams = []
    for i in range(n_stream):
        sid = R.choice([0, 4, 8, 1, 3, 2, 5, R.range(0, 400) * 4, R.range(0, 1 << 20)])
        ln = R.weighted([(0, 5), (1, 8), (R.range(2, 60), 35), (R.range(61, 300 if small else 1100), 52)])
        if stream_state.get("lens") and R.chance(20):
            ln = R.choice(stream_state["lens"])        # e.g. equally long requests on different streams
        stream_state.setdefault("lens", []).append(ln)
        streams.append(["stream", sid, ln, R.chance(15), True, w(), w(), w(), R.chance(10)])
    seq = others + streams
    R.shuffle(seq)
    if streams and R.chance(25):
        # last frame without explicit length (extends to the end of the packet)
        for i in range(len(seq) - 1, -1, -1):
            if seq[i][0] == "stream":
                s = seq.pop(i)
                s[4] = False
                seq.append(s)
                break
    elif R.chance(5):
        seq.append(["datagram", R.range(0, 80), False, 0])
    return seq


def gen_quic_conn(R, cid, cfg, used, **epkw):
    v6 = R.chance(cfg.get("v6_pct", 30))
    c, s = G.gen_endpoints(R.fork("ep"), v6, used, **epkw)
    small = bool(cfg.get("small"))
    H = R.fork("shape")
    suite = H.choice(cfg.get("suites", [0x1301, 0x1302, 0x1303, 0x1304]))
    others = [x for x in [0x1301, 0x1302, 0x1303, 0x1304, 0x1305] if x != suite and H.chance(50)]
    offered = others + [suite]
    H.shuffle(offered)
    if H.chance(cfg.get("suite_first_pct", 40)):
        offered.remove(suite)
        offered.insert(0, suite)
    zp = cfg.get("zero_cid_pct", 15)
    q = {"suite": suite, "offered": offered, "dcid_len": H.range(8, 20), "scid_c_len": _cid_len(H, zp),
         "scid_s_len": _cid_len(H, zp // 2)}
    lp = cfg.get("long_ch_pct", 25)
    q["ch_len"] = H.weighted([(H.range(200, 600), 100 - lp - 25), (H.range(601, 1100), 25), (H.range(1300, 2600), lp)])
    # ClientHello split into CRYPTO frames, order of frames, distribution over packets
    nfr = H.weighted([(1, 45), (2, 25), (3, 15), (H.range(4, 6), 15)])
    q["ch_cuts"] = sorted(set(H.range(1, 199) for _ in range(nfr - 1)))      # permille positions
    order = list(range(len(q["ch_cuts"]) + 1))
    if H.chance(cfg.get("crypto_reorder_pct", 35)):
        H.shuffle(order)
    q["ch_order"] = order
    q["ch_pk"] = [H.range(1, 3) for _ in range(6)]
    q["retry"] = H.chance(cfg.get("retry_pct", 15))
    q["retry_scid_len"] = H.range(1, 20)
    q["token_len"] = H.range(1, 60)
    q["s_coalesce"] = H.chance(60)
    q["s_hs_split"] = [H.range(200, 1100) for _ in range(3)]
    q["s_flight_len"] = H.range(300, 2400)
    q["c_coalesce"] = H.chance(60)
    q["pad_mode"] = H.choice(["frames", "frames", "trailing"])
    q["pnlen"] = {k: H.range(1, 4) for k in ("ci", "si", "ch", "sh")}
    q["pn0"] = {k: 0 for k in ("ci", "si", "ch", "sh", "ca", "sa")}     # RFC 9000 12.3: packet numbers start at 0
    q["ncid"] = {"s": H.range(0, 3) if H.chance(cfg.get("ncid_pct", 40)) else 0,
                 "c": H.range(0, 2) if H.chance(cfg.get("ncid_pct", 40) // 2) else 0}
    RX = R.fork("chretx")
    if RX.chance(cfg.get("ch_retx_pct", 0)):
        q["ch_retx"] = {"a": RX.range(0, 900), "n": RX.range(50, 600), "after": RX.range(1, 4)}
    if R.fork("vnegpre").chance(cfg.get("vneg_pct", 0)):
        q["vneg_prelude"] = True
    HL = R.fork("ncidlen")
    if HL.chance(cfg.get("ncid_len_vary_pct", 30)):
        # an endpoint may issue connection ids of other lengths than its first one (RFC 9000 5.1); >= 4 bytes so that no
        # id is by chance a prefix of a packet addressed to another id
        q["ncid_len"] = {"s": [HL.range(4, 20) for _ in range(4)], "c": [HL.range(4, 20) for _ in range(3)]}
    q["early_s"] = H.chance(25)       # server sends 1-RTT data right after its handshake flight
    # retransmitted handshake datagrams (exact copies seen twice by the tap)
    q["hs_dup"] = {"c": H.chance(cfg.get("hs_dup_pct", 15)), "s": H.chance(cfg.get("hs_dup_pct", 15))}
    z = None
    q["c_fin_1rtt"] = H.chance(40)
    # 0-RTT when the negotiated suite is not the first one offered hits a known finding (KF-2): kept rare
    if H.chance(cfg.get("zero_rtt_pct", 20)) and (offered[0] == suite or H.chance(cfg.get("zero_rtt_any_suite_pct", 0))):
        z = {"coalesce": H.chance(50), "pk": []}
        st = {}
        for _ in range(H.range(1, 3)):
            z["pk"].append({"pnlen": H.range(1, 4), "skip": H.weighted([(0, 80), (H.range(1, 5), 20)]),
                            "frames": gen_frames(H.fork("z", len(z["pk"])), "0rtt", st, small)})
    q["zero_rtt"] = z
    # application script
    A = R.fork("app")
    nfl = A.weighted([(0, 3), (1, 10), (2, 20), (A.range(3, 6), 40), (A.range(7, 8 if small else 14), 27)])
    script = []
    sstate = {"c": {}, "s": {}}
    ku_pct = cfg.get("ku_pct", 25)
    for f in range(nfl):
        fl = {"c": [], "s": []}
        sides = A.weighted([(["c"], 35), (["s"], 35), (["c", "s"], 30)])
        for d in sides:
            for _ in range(A.weighted([(1, 60), (2, 20), (3, 10), (A.range(4, 6), 10)])):
                pk = {"pnlen": A.weighted([(1, 30), (2, 35), (3, 15), (4, 20)]),
                      "skip": A.weighted([(0, 75), (1, 10), (A.range(2, 40), 10), (A.range(41, 200), 5)]),
                      "frames": gen_frames(A.fork("fr", f, d, len(fl[d])), "1rtt", sstate[d], small)}
                if A.chance(20):
                    pk["spin"] = 1
                if A.chance(10):
                    pk["fixed0_never"] = 0
                fl[d].append({"pk": [pk]})
        if f >= 1 and A.chance(ku_pct):
            # in a two-sided flight the other side still sends with the old keys while the update is in flight
            fl["ku"] = A.choice(sides)
        if A.chance(cfg.get("cid_switch_pct", 30)):
            fl["cid_switch"] = {d: A.range(0, 3) for d in sides}
        if "s" in sides and fl["s"] and A.chance(cfg.get("nst_pct", 20)):
            # the server sends a NewSessionTicket: a TLS handshake message in a CRYPTO frame of a 1-RTT packet
            pk0 = fl["s"][0]["pk"][0]
            nstlen = A.range(20, 200)
            NP = R.fork("nstpos", f)
            pos = 0
            if NP.chance(50):
                # behind other frames of the packet (never behind a STREAM / DATAGRAM frame without length: it ends the packet)
                lim = len(pk0["frames"])
                for i_, x in enumerate(pk0["frames"]):
                    if (x[0] == "stream" and not x[4]) or (x[0] == "datagram" and not x[2]):
                        lim = i_
                        break
                pos = NP.range(0, lim)
            pk0["frames"].insert(pos, ["nst", nstlen])
        script.append(fl)
    if script and script[-1].get("c") and script[-1].get("s") and A.chance(cfg.get("close_pct", 20)):
        # one side closes the connection with a TLS alert (CONNECTION_CLOSE 0x1c, CRYPTO_ERROR) while packets of the
        # other side are still in flight and pass the tap afterwards
        d = A.choice("cs")
        script[-1][d][0]["pk"][0]["frames"].insert(0, ["close", 0x0100 + A.below(256)])
    AL = R.fork("ncidlate")
    if len(script) >= 3 and AL.chance(cfg.get("ncid_late_pct", 15)):
        # a connection id issued in the middle of the connection, after both sides have sent 1-RTT packets; the peer
        # switches to it in the next flight in which it sends
        f = AL.range(1, len(script) - 2)
        ds = [d for d in "cs" if script[f].get(d)]
        if ds:
            d = AL.choice(ds)
            od = "s" if d == "c" else "c"
            script[f]["ncid_issue"] = d
            for g in range(f + 1, len(script)):
                if script[g].get(od):
                    script[g].setdefault("cid_switch", {})[od] = -1
                    break
    q["script"] = script
    if A.chance(cfg.get("one_way_pct", 8)):
        # one-way tap / asymmetric routing: after the handshake the capture sees only one direction's datagrams
        # (the peer still receives and answers everything, key updates included)
        q["one_way"] = A.choice("cs")
    q["net_seed"] = R.bits(40)
    conn = {"id": cid, "proto": "quic", "sub": R.bits(63), "v6": v6, "c": c, "s": s, "q": q, "pad_eth": R.chance(50),
            "t": G.gen_timing(R.fork("t"), cid, cfg.get("policy", "concurrent")), "unique_ts": True}
    if q["scid_c_len"] > 0 and q["scid_s_len"] > 0 and len(script) >= 2 and A.chance(cfg.get("migrate_pct", 0)):
        # NAT rebinding: from some flight on the client's datagrams come from (and go to) a new address
        M = R.fork("mig")
        mc, _ = G.gen_endpoints(M, v6, used, server_ip=s["ip"], server_port=s["port"])
        conn["c_mig"] = {"mac": c["mac"], "ip": mc["ip"], "port": mc["port"]}
        q["migrate_at"] = M.range(1, len(script) - 1)
    if cfg.get("net"):
        apply_net(conn, Rng(q["net_seed"], "net"), cfg["net"])
    return conn


def apply_net(conn, R, net):
    """attach UDP path actions (loss / duplication / bounded reordering) to plain 1-RTT data datagrams"""
    for fl in conn["q"]["script"]:
        for d in "cs":
            for i, dg in enumerate(fl.get(d, [])):
                for kind, pct in sorted(net.items()):
                    if kind.startswith("_"):
                        continue
                    if pct and R.chance(pct, 1000):
                        if kind == "delay":
                            dg["act"] = ["delay", R.range(1, net.get("_D", 3))]
                        elif kind == "dup":
                            dg["act"] = ["dup", R.range(0, 3)]
                        elif kind == "lost":
                            dg["act"] = ["lost"]
                        elif kind == "lost_before":
                            dg["act"] = ["lost_before"]
                        break


# ------------------------------------------------------------------------------------------------------------------
# construction
# ------------------------------------------------------------------------------------------------------------------

class Side:
    def __init__(self):
        self.pn = {"init": 0, "hs": 0, "app": 0}
        self.crypto_off = {"init": 0, "hs": 0, "app": 0}
        self.gen = 0                 # key generation used for SENDING 1-RTT packets
        self.scid = b""
        self.dcid = b""
        self.issued = []             # connection ids this side has issued (incl. the handshake one)
        self.ncid_seq = 1
        self.stream_off = {}


def _enc_frames(R, specs, side: Side, st, meta):
    """encode frame specs -> (bytes, stream_data_concat, meta list)"""
    out = b""
    sdata = b""
    for i, f in enumerate(specs):
        k = f[0]
        if k == "ack":
            w = f[6] or None
            out += Q.f_ack(f[1], f[2], f[3], [tuple(x) for x in f[4]], f[5], w)
            meta.append({"n": "AckFrame"})
        elif k == "ping":
            out += Q.f_ping()
            meta.append({"n": "PingFrame"})
        elif k == "pad":
            out += Q.f_padding(f[1])
            meta.append({"n": "PaddingFrame", "len": f[1]})
        elif k == "datagram":
            data = R.fork("dgf", i).bytes(f[1])
            out += Q.f_datagram(data, f[2], f[3] or None)
            meta.append({"n": "DatagramFrame"})
        elif k in ("path_challenge", "path_response"):
            out += Q.f_path(0x1a if k == "path_challenge" else 0x1b, R.fork("path", i).bytes(8))
            meta.append({"n": "Path"})
        elif k == "new_token":
            out += Q.f_new_token(R.fork("tok", i).bytes(f[1]), f[2] or None)
            meta.append({"n": "NewTokenFrame"})
        elif k == "stream":
            _, sid, ln, fin, explicit, w1, w2, w3, force_off = f
            off = side.stream_off.get(sid, 0)
            data = R.fork("sd", i).bytes(ln)
            side.stream_off[sid] = off + ln
            out += Q.f_stream(sid, off, data, fin, explicit, w1 or None, w2 or None, w3 or None, force_off)
            sdata += data
            meta.append({"n": "StreamFrame", "stream_id": sid, "offset": off, "data": data.hex(), "fin": fin})
        elif k == "ncid":
            cid = f[1]
            out += Q.f_new_cid(f[2], 0, bytes.fromhex(cid), R.fork("rst", i).bytes(16), None)
            meta.append({"n": "NewConnectionIdFrame", "cid": cid})
        elif k == "crypto":
            data = f[2]
            out += Q.f_crypto(f[1], data, f[3] if len(f) > 3 else None, None)
            meta.append({"n": "CryptoFrame", "offset": f[1], "data": data.hex()})
        elif k == "nst":
            msg = b"\x04" + (f[1]).to_bytes(3, "big") + R.fork("nst", i).bytes(f[1])
            off = side.crypto_off["app"]
            side.crypto_off["app"] = off + len(msg)
            out += Q.f_crypto(off, msg)
            meta.append({"n": "CryptoFrame", "offset": off, "data": msg.hex()})
        elif k == "ext1":
            # one byte frame of a negotiated extension (e.g. IMMEDIATE_ACK 0x1f of the ack-frequency extension)
            out += bytes([f[1]])
            meta.append({"n": "ExtensionFrame"})
        elif k == "hsdone":
            out += Q.f_handshake_done()
            meta.append({"n": "HandshakeDoneFrame"})
        elif k == "close":
            out += Q.f_close(False, f[1] if len(f) > 1 else 0, 0x06, b"bye")
            meta.append({"n": "ConnectionCloseFrame"})
        else:
            w = f[4] or None
            if k == "max_data":
                out += Q.f_simple(0x10, f[1], w=w)
            elif k == "max_stream_data":
                out += Q.f_simple(0x11, f[1], f[2], w=w)
            elif k == "max_streams":
                out += Q.f_simple(0x12 + (f[1] & 1), f[2], w=w)
            elif k == "data_blocked":
                out += Q.f_simple(0x14, f[1], w=w)
            elif k == "stream_data_blocked":
                out += Q.f_simple(0x15, f[1], f[2], w=w)
            elif k == "streams_blocked":
                out += Q.f_simple(0x16 + (f[1] & 1), f[2], w=w)
            elif k == "reset_stream":
                out += Q.f_simple(0x04, f[1], f[2], f[3], w=w)
            elif k == "stop_sending":
                out += Q.f_simple(0x05, f[1], f[2], w=w)
            elif k == "retire_cid":
                out += Q.f_simple(0x19, f[1] % 8, w=w)
            else:
                raise ValueError(k)
            meta.append({"n": k})
    return out, sdata


def _client_hello(R, q, crand):
    exts = []
    alpn = b"h3"
    exts.append(T.ext(0x0010, struct.pack(">HB", len(alpn) + 1, len(alpn)) + alpn))
    exts.append(T.ext(0x002b, b"\x02\x03\x04"))
    exts.append(T.ext(0x0033, struct.pack(">HHH", 36, 0x001d, 32) + R.fork("ks").bytes(32)))
    exts.append(T.ext(0x000d, b"\x00\x04\x04\x03\x08\x04"))
    name = b"quic%d.example" % R.below(1000)
    exts.append(T.ext(0, struct.pack(">HBH", len(name) + 3, 0, len(name)) + name))
    tp = b"\x04\x04\x80\x10\x00\x00" + b"\x0f" + bytes([q["scid_c_len"]]) + R.fork("tpcid").bytes(q["scid_c_len"])
    exts.append(T.ext(0x0039, tp))
    if q.get("zero_rtt"):
        exts.append(T.ext(0x002a, b""))
        exts.append(T.ext(0x0029, R.fork("psk").bytes(40)))
    R.fork("extord").shuffle(exts)
    base = T.client_hello(0x0303, crand, b"", q["offered"], exts)
    pad = max(0, q["ch_len"] - len(base) - 4)
    exts.append(T.ext(0x0015, b"\x00" * pad))
    return T.client_hello(0x0303, crand, b"", q["offered"], exts)


def build_units(conn):
    q = conn["q"]
    R = Rng(conn["sub"], "quic")
    suite = q["suite"]
    hname, keylen, mode = Q.SUITE[suite]
    hl = 48 if hname == "sha384" else 32
    crand = R.fork("crand").bytes(32)
    srand = R.fork("srand").bytes(32)
    sec = {lab: R.fork("sec", lab).bytes(hl) for lab in ("chs", "shs", "cap", "sap", "early", "exp")}
    C, S = Side(), Side()
    side = {"c": C, "s": S}
    odcid = R.fork("odcid").bytes(q["dcid_len"])
    C.scid = R.fork("cscid").bytes(q["scid_c_len"])
    S.scid = R.fork("sscid").bytes(q["scid_s_len"])
    # connection ids are chosen independently by every endpoint: a long id may begin with another connection's short id
    for sd, k in ((C, "scid_c_prefix"), (S, "scid_s_prefix")):
        if q.get(k):
            pre = bytes.fromhex(q[k])[:len(sd.scid)]
            sd.scid = pre + sd.scid[len(pre):]
    C.dcid = odcid
    C.issued = [C.scid]
    S.issued = [S.scid]
    for k, sd, sp in (("ci", C, "init"), ("si", S, "init"), ("ch", C, "hs"), ("sh", S, "hs"), ("ca", C, "app"),
                      ("sa", S, "app")):
        sd.pn[sp] = q["pn0"][k]
    ikeys = Q.initial_keys(odcid)          # (client, server)
    hkeys = (Q.suite_keys(suite, sec["chs"]), Q.suite_keys(suite, sec["shs"]))
    akeys = [(Q.suite_keys(suite, sec["cap"]), Q.suite_keys(suite, sec["sap"]))]
    ekeys = Q.suite_keys(suite, sec["early"])
    keymodel = {"client_random": crand.hex(), "suite": suite, "initial": [], "app_generations": 1}

    def km_initial(dcid, keys):
        keymodel["initial"].append({"dcid": dcid.hex(), "ckey": keys[0].key.hex(), "civ": keys[0].iv.hex(),
                                    "chp": keys[0].hp.hex(), "skey": keys[1].key.hex(), "siv": keys[1].iv.hex(),
                                    "shp": keys[1].hp.hex()})
    km_initial(odcid, ikeys)
    dgrams = []        # bytes
    dmeta = []         # per datagram: {"d", "stream": bytes, "pk": [packet meta]}
    flights = []       # [{"c": [dg index...], "s": [...]}]
    acts = {}

    def app_keys(gen, d):
        while len(akeys) <= gen:
            a, b = akeys[-1]
            akeys.append((a.next_generation(), b.next_generation()))
            keymodel["app_generations"] = len(akeys)
        return akeys[gen][0 if d == "c" else 1]

    def packet(d, kind, frames_spec, pnlen, skip=0, token=None, RR=None, extra=None, min_payload=0):
        """-> (bytes, stream data, meta)"""
        sd = side[d]
        sp = {"init": "init", "hs": "hs", "0rtt": "app", "1rtt": "app"}[kind]
        sd.pn[sp] += skip
        pn = sd.pn[sp]
        sd.pn[sp] += 1
        meta = []
        payload, sdata = _enc_frames(RR or R.fork("pk", d, kind, pn), frames_spec, sd, None, meta)
        if len(payload) < min_payload:
            payload += b"\x00" * (min_payload - len(payload))
            meta.append({"n": "PaddingFrame", "len": min_payload})
        if pnlen + len(payload) < 4:
            # PADDING goes in front: the last frame may extend to the end of the packet (STREAM/DATAGRAM without length)
            payload = b"\x00" * (4 - pnlen - len(payload)) + payload
        # a conformant sender encodes enough bytes for the receiver's window: the largest acknowledged packet is taken
        # to be the last packet of the previous flight
        need = 1
        unacked = pn - sd_acked[d][sp]
        while (1 << (8 * need - 1)) <= unacked and need < 4:
            need += 1
        pnlen = max(pnlen, need)
        if kind == "1rtt":
            keys = app_keys(sd.gen, d)
            hdr = Q.short_header(sd.dcid, pnlen, sd.gen & 1, spin=(extra or {}).get("spin", 0),
                                 fixed=0 if (q.get("grease_bit") and d in q["grease_bit"]) else 1)
            raw = Q.protect(keys, hdr, pn, pnlen, payload, False)
            lvl = "Application"
        else:
            if kind == "init":
                keys = cur_ikeys[0][0 if d == "c" else 1]
                ptype = Q.INITIAL
                lvl = "Initial"
            elif kind == "hs":
                keys = hkeys[0 if d == "c" else 1]
                ptype = Q.HANDSHAKE
                lvl = "Handshake"
            else:
                keys = ekeys
                ptype = Q.ZERO_RTT
                lvl = "Early"
            hdr = Q.long_header(ptype, sd.dcid, sd.scid, pnlen, pnlen + len(payload) + 16, token=token,
                                length_width=(extra or {}).get("lw"),
                                fixed=0 if (q.get("grease_bit") and d in q["grease_bit"]) else 1)
            raw = Q.protect(keys, hdr, pn, pnlen, payload, True)
        pm = {"d": d, "kind": kind, "space": SPACE[kind], "pn": pn, "pnlen": pnlen, "frames": meta, "level": lvl,
              "boundary": bool((extra or {}).get("boundary")), "ext_last": bool((extra or {}).get("ext_last")),
              "gen": sd.gen if kind == "1rtt" else None, "dcid": sd.dcid.hex()}
        return raw, sdata, pm

    sd_acked = {"c": {"init": -1, "hs": -1, "app": -1}, "s": {"init": -1, "hs": -1, "app": -1}}

    def flight_done():
        for d in "cs":
            for sp in ("init", "hs", "app"):
                sd_acked[d][sp] = side[d].pn[sp] - 1

    def datagram(d, packets, pad_to=0, pad_mode="frames", act=None, plain=False):
        """packets: list of (raw, sdata, meta) already built, in order"""
        raw = b"".join(p[0] for p in packets)
        o = 0
        for p in packets:
            p[2]["off"] = o          # byte offset of the packet inside its datagram
            o += len(p[0])
        if pad_to and len(raw) < pad_to and pad_mode == "trailing" and packets[-1][2]["kind"] != "1rtt":
            raw += b"\x00" * (pad_to - len(raw))
        dgrams.append(raw)
        dmeta.append({"d": d, "stream": b"".join(p[1] for p in packets), "pk": [p[2] for p in packets],
                      "plain": plain})
        i = len(dgrams) - 1
        if act:
            acts[i] = act
        return i

    cur_ikeys = [ikeys]
    ch = _client_hello(R.fork("ch"), q, crand)
    cuts = sorted(set(max(1, min(len(ch) - 1, len(ch) * c // 200)) for c in q["ch_cuts"])) if len(ch) > 2 else []
    pieces = []
    lo = 0
    for c_ in cuts + [len(ch)]:
        if c_ > lo:
            pieces.append((lo, ch[lo:c_]))
            lo = c_
    order = [i for i in q["ch_order"] if i < len(pieces)] + [i for i in range(len(pieces)) if i not in q["ch_order"]]
    sent = [pieces[i] for i in order]

    def client_first_flight(token):
        """-> list of datagram indices"""
        idx = []
        groups = []
        i = 0
        for n in q["ch_pk"]:
            if i >= len(sent):
                break
            groups.append(sent[i:i + n])
            i += n
        if i < len(sent):
            groups.append(sent[i:])
        # keep each Initial packet below the MTU: split groups that are too large
        fixed = []
        for g in groups:
            cur = []
            sz = 0
            for (off, data) in g:
                while len(data) > 1000:
                    if cur:
                        fixed.append(cur)
                        cur, sz = [], 0
                    fixed.append([(off, data[:1000])])
                    off, data = off + 1000, data[1000:]
                if sz + len(data) > 1000 and cur:
                    fixed.append(cur)
                    cur, sz = [], 0
                cur.append((off, data))
                sz += len(data)
            if cur:
                fixed.append(cur)
        rx = q.get("ch_retx")
        if rx and len(ch) > 40:
            # a retransmission of part of the ClientHello with other frame boundaries (overlapping the original frames),
            # captured between the original packets
            a = max(0, min(len(ch) - 2, len(ch) * rx["a"] // 1000))
            b = max(a + 1, min(len(ch), a + min(1000, max(1, len(ch) * rx["n"] // 1000))))
            fixed.insert(min(len(fixed), max(1, rx["after"])), [(a, ch[a:b])])
        z = q.get("zero_rtt")
        for gi, g in enumerate(fixed):
            frames = [["crypto", off, data] for off, data in g]
            pks = []
            zero_here = z and z["coalesce"] and gi == len(fixed) - 1
            zp = []
            if zero_here:
                for j, zpk in enumerate(z["pk"][:1]):
                    zp.append(packet("c", "0rtt", zpk["frames"], zpk["pnlen"], zpk.get("skip", 0),
                                     RR=R.fork("zpk", j, len(token or b""))))
            zlen = sum(len(p[0]) for p in zp)
            minp = 0
            if q["pad_mode"] == "frames" or zero_here:
                est = sum(len(d) + 8 for _, d in g) + 60 + zlen
                minp = max(0, 1200 - est) + sum(len(d) + 8 for _, d in g)
            pks.append(packet("c", "init", frames, q["pnlen"]["ci"], token=token or b"", min_payload=minp))
            pks += zp
            idx.append(datagram("c", pks, pad_to=1200, pad_mode=q["pad_mode"]))
        if z:
            start = 1 if z["coalesce"] else 0
            for j, zpk in enumerate(z["pk"][start:]):
                idx.append(datagram("c", [packet("c", "0rtt", zpk["frames"], zpk["pnlen"], zpk.get("skip", 0),
                                                 RR=R.fork("zpk", j + start, len(token or b"")))]))
        return idx

    if q.get("vneg_prelude"):
        # the client first tries a version the server does not speak (its own first connection id D0); the server answers
        # with Version Negotiation and the client starts over with QUIC v1 and a fresh first Destination Connection ID
        V = R.fork("vneg")
        d0 = V.bytes(V.range(8, 20))
        ver = V.choice([0x1a2a3a4a, 0xff00001d, 0x6b3343cf, 0xfaceb002])
        first = bytes([0xC0 | V.below(16)]) + ver.to_bytes(4, "big") + bytes([len(d0)]) + d0 + bytes([len(C.scid)]) + C.scid
        first += V.bytes(1200 - len(first))
        dgrams.append(first)
        dmeta.append({"d": "c", "stream": b"", "pk": [{"d": "c", "kind": "vneg", "frames": []}], "plain": False})
        flights.append({"c": [len(dgrams) - 1], "s": []})
        vn = bytes([0x80 | V.below(128)]) + b"\x00\x00\x00\x00" + bytes([len(C.scid)]) + C.scid + bytes([len(d0)]) + d0
        vn += b"".join(v.to_bytes(4, "big") for v in [1] + [V.choice([0x6b3343cf, 0xff00001d, 0x0a0a0a0a])][:V.below(2)])
        dgrams.append(vn)
        dmeta.append({"d": "s", "stream": b"", "pk": [{"d": "s", "kind": "vneg", "frames": []}], "plain": False})
        flights.append({"c": [], "s": [len(dgrams) - 1]})
    flights.append({"c": client_first_flight(None), "s": []})
    if (q.get("hs_dup") or {}).get("c"):
        acts[flights[-1]["c"][0]] = ["dup", 1]
    flight_done()
    if q.get("retry"):
        rscid = R.fork("rscid").bytes(q["retry_scid_len"])
        if q.get("retry_scid_hex") is not None:
            rscid = bytes.fromhex(q["retry_scid_hex"])
        token = R.fork("rtoken").bytes(q["token_len"])
        rp = Q.retry_packet(C.scid, rscid, token, odcid, unused=R.fork("runused").below(16))
        dgrams.append(rp)
        dmeta.append({"d": "s", "stream": b"", "pk": [{"d": "s", "kind": "retry", "frames": []}], "plain": False})
        flights.append({"c": [], "s": [len(dgrams) - 1]})
        C.dcid = rscid
        C.crypto_off["init"] = 0
        C.stream_off = {}
        nk = Q.initial_keys(rscid)
        cur_ikeys[0] = nk
        km_initial(rscid, nk)
        flights.append({"c": client_first_flight(token), "s": []})
        flight_done()
    # server flight: Initial[ACK, CRYPTO(SH)] + Handshake[CRYPTO(EE..Fin)]
    S.dcid = C.scid
    sh = T.server_hello(0x0303, srand, b"", suite, [T.ext(0x002b, b"\x03\x04"),
                                                    T.ext(0x0033, struct.pack(">HH", 0x001d, 32) + R.fork("sks").bytes(32))])
    tp = b"\x00" + bytes([len(odcid)]) + odcid + b"\x0f" + bytes([len(S.scid)]) + S.scid
    ee = T.hs_msg(8, struct.pack(">H", 0) if False else (lambda e: struct.pack(">H", len(e)) + e)(
        T.ext(0x0010, b"\x00\x03\x02h3") + T.ext(0x0039, tp)))
    rest = ee
    blob = R.fork("shs-blob")
    body_len = max(50, q["s_flight_len"] - len(ee) - 100)
    rest += T.hs_msg(11, blob.bytes(body_len)) + T.hs_msg(15, blob.bytes(70)) + T.hs_msg(20, blob.bytes(hl))
    p_init = packet("s", "init", [["ack", 0, 10, 0, [], None, 0], ["crypto", 0, sh]], q["pnlen"]["si"], token=b"")
    hs_pk = []
    off = 0
    for n in q["s_hs_split"] + [10 ** 6]:
        if off >= len(rest):
            break
        n = min(n, 1100)
        hs_pk.append(packet("s", "hs", [["crypto", off, rest[off:off + n]]], q["pnlen"]["sh"]))
        off += n
    sidx = []
    if q["s_coalesce"] and len(p_init[0]) + len(hs_pk[0][0]) < 1400:
        sidx.append(datagram("s", [p_init, hs_pk[0]], pad_to=1200 if q["pad_mode"] == "trailing" else 0, pad_mode=q["pad_mode"]))
        tail = hs_pk[1:]
    else:
        sidx.append(datagram("s", [p_init], pad_to=1200 if q["pad_mode"] == "trailing" else 0, pad_mode=q["pad_mode"]))
        tail = hs_pk
    for hp in tail:
        sidx.append(datagram("s", [hp]))
    script = [copy.deepcopy(f) for f in q.get("script", [])]
    if q.get("early_s") and script and script[0].get("s") and not script[0].get("c"):
        # 0.5-RTT data: the server's first application flight rides right behind its handshake flight
        early = script.pop(0)
        for dg in early["s"]:
            pks = [packet("s", "1rtt", pk["frames"], pk["pnlen"], pk.get("skip", 0), extra=pk) for pk in dg["pk"]]
            sidx.append(datagram("s", pks, plain=False))
    flights.append({"c": [], "s": sidx})
    if (q.get("hs_dup") or {}).get("s"):
        acts[sidx[0]] = ["dup", 1]
    flight_done()
    # client: Initial[ACK] + Handshake[ACK, CRYPTO(Fin)]
    C.dcid = S.scid
    cfin = T.hs_msg(20, R.fork("cfin").bytes(hl))
    pi = packet("c", "init", [["ack", 0, 5, 0, [], None, 0]], q["pnlen"]["ci"], token=b"")
    ph = packet("c", "hs", [["ack", 0, 5, 0, [], None, 0], ["crypto", 0, cfin]], q["pnlen"]["ch"])
    cidx = []
    if q["c_coalesce"] and q.get("c_fin_1rtt") and script and script[0].get("c") and not script[0].get("ku"):
        # Initial + Handshake + 1-RTT coalesced in one datagram (the client may send 1-RTT data with its Finished)
        first = script[0]["c"].pop(0)
        pks = [packet("c", "1rtt", pk["frames"], pk["pnlen"], pk.get("skip", 0), extra=pk) for pk in first["pk"][:1]]
        if len(pi[0]) + len(ph[0]) + len(pks[0][0]) < 1450:
            cidx.append(datagram("c", [pi, ph] + pks))
        else:
            cidx.append(datagram("c", [pi, ph]))
            cidx.append(datagram("c", pks))
    elif q["c_coalesce"]:
        cidx.append(datagram("c", [pi, ph], pad_to=1200, pad_mode="trailing" if q["pad_mode"] == "trailing" else "frames"))
    else:
        cidx.append(datagram("c", [pi], pad_to=1200, pad_mode="trailing"))
        cidx.append(datagram("c", [ph]))
    flights.append({"c": cidx, "s": []})
    flight_done()
    # server: 1-RTT HANDSHAKE_DONE, NEW_TOKEN, NEW_CONNECTION_IDs ; client: NEW_CONNECTION_IDs
    fr = [["hsdone"]]
    for j in range(q["ncid"]["s"] if len(S.scid) > 0 else 0):
        cidb = R.fork("ncid", "s", j).bytes((q.get("ncid_len") or {}).get("s", [len(S.scid)] * 8)[j])
        S.issued.append(cidb)
        fr.append(["ncid", cidb.hex(), S.ncid_seq])
        S.ncid_seq += 1
    flights.append({"c": [], "s": [datagram("s", [packet("s", "1rtt", fr, R.fork("hdpn").range(1, 4))])]})
    flight_done()
    if q["ncid"]["c"] and len(C.scid) > 0:
        fr = []
        for j in range(q["ncid"]["c"]):
            cidb = R.fork("ncid", "c", j).bytes((q.get("ncid_len") or {}).get("c", [len(C.scid)] * 8)[j])
            C.issued.append(cidb)
            fr.append(["ncid", cidb.hex(), C.ncid_seq])
            C.ncid_seq += 1
        flights.append({"c": [datagram("c", [packet("c", "1rtt", fr, R.fork("cnpn").range(1, 4))])], "s": []})
        flight_done()
    # application script
    sent_in_gen = {"c": set(), "s": set()}      # generations in which a side has sent 1-RTT packets (earlier flights)
    for d in "cs":
        for f in flights:
            for i in f[d]:
                for pk in dmeta[i]["pk"]:
                    if pk["kind"] == "1rtt":
                        sent_in_gen[d].add(pk["gen"])
    for fl in script:
        ku = fl.get("ku")
        # RFC 9001 6.1: an update may only be initiated once the handshake is confirmed and after a packet sent with
        # the current keys has been acknowledged: both sides have sent with the current generation in earlier flights
        if ku and C.gen == S.gen and C.gen in sent_in_gen["c"] and S.gen in sent_in_gen["s"]:
            side[ku].gen += 1
            initiated = ku
        else:
            initiated = None
        # the peer follows a key update it has seen in an earlier flight, when it next sends
        for d in "cs":
            od = "s" if d == "c" else "c"
            if side[d].gen < side[od].gen and initiated != od and fl.get(d):
                side[d].gen = side[od].gen
        sw = fl.get("cid_switch") or {}
        for d in "cs":
            if d in sw:
                od = "s" if d == "c" else "c"
                pool = side[od].issued
                if len(pool) > 1:
                    side[d].dcid = pool[sw[d] % len(pool)]
        f = {"c": [], "s": []}
        first_of_phase = {}
        late_ncid = None
        di = fl.get("ncid_issue")
        if di and fl.get(di) and len(side[di].scid) > 0 and not q.get("one_way"):
            ln = (q.get("ncid_len") or {}).get(di, [len(side[di].scid)] * 8)[-1]
            cidb = R.fork("ncid-late", di, len(side[di].issued)).bytes(ln)
            side[di].issued.append(cidb)
            late_ncid = ["ncid", cidb.hex(), side[di].ncid_seq]
            side[di].ncid_seq += 1
        for d in "cs":
            for j, dg in enumerate(fl.get(d, [])):
                pks = [packet(d, "1rtt", ([late_ncid] if (late_ncid and d == di and j == 0 and k == 0) else []) + pk["frames"],
                              pk["pnlen"], pk.get("skip", 0), extra=pk) for k, pk in enumerate(dg["pk"])]
                plain = not any(m["n"] in ("NewConnectionIdFrame", "CryptoFrame") for p in pks for m in p[2]["frames"])
                act = dg.get("act")
                if act and (not plain or (initiated == d) or side[d].gen not in sent_in_gen[d]):
                    act = None
                if q.get("one_way") and d != q["one_way"]:
                    act = ["lost"]          # never passes the tap      # only plain data datagrams of one key phase are lost/duplicated/reordered (C02)
                f[d].append(datagram(d, pks, act=act, plain=plain))
        flights.append(f)
        flight_done()
        for d in "cs":
            if f[d]:
                sent_in_gen[d].add(side[d].gen)
    units = []
    mig_from = None
    if q.get("migrate_at") is not None and conn.get("c_mig"):
        mig_from = len(flights) - len(script) + q["migrate_at"]
    for fi, f in enumerate(flights):
        u = {"c": [], "s": []}
        for d in "cs":
            for i in f[d]:
                e = {"dg": i}
                if i in acts:
                    e["act"] = acts[i]
                if mig_from is not None and fi >= mig_from:
                    e["mig"] = True
                u[d].append(e)
        units.append(u)
    keylog = []
    labs = [("CLIENT_HANDSHAKE_TRAFFIC_SECRET", sec["chs"]), ("SERVER_HANDSHAKE_TRAFFIC_SECRET", sec["shs"]),
            ("CLIENT_TRAFFIC_SECRET_0", sec["cap"]), ("SERVER_TRAFFIC_SECRET_0", sec["sap"]),
            ("EXPORTER_SECRET", sec["exp"])]
    if q.get("zero_rtt"):
        labs.append(("CLIENT_EARLY_TRAFFIC_SECRET", sec["early"]))
    R.fork("labord").shuffle(labs)
    for lab, v in labs:
        keylog.append((-1, lab, v))     # QUIC: secrets must be known before the packets (written at connection start)
    keymodel.update({
        "hs": {"ckey": hkeys[0].key.hex(), "civ": hkeys[0].iv.hex(), "chp": hkeys[0].hp.hex(),
               "skey": hkeys[1].key.hex(), "siv": hkeys[1].iv.hex(), "shp": hkeys[1].hp.hex()},
        "app": [{"ckey": a.key.hex(), "civ": a.iv.hex(), "skey": b.key.hex(), "siv": b.iv.hex(),
                 "csec": a.secret.hex(), "ssec": b.secret.hex()} for a, b in akeys],
        "app_hp": {"chp": akeys[0][0].hp.hex(), "shp": akeys[0][1].hp.hex()},
        "early": {"key": ekeys.key.hex(), "iv": ekeys.iv.hex(), "hp": ekeys.hp.hex()} if q.get("zero_rtt") else None,
    })
    info = {"dgrams": dgrams, "dmeta": dmeta, "keylog": keylog, "keys": keymodel, "truth": {}}
    return units, info


def reduction_candidates(conn):
    q = conn["q"]
    sc = q.get("script", [])
    if len(sc) > 1:
        for half in (sc[:len(sc) // 2], sc[len(sc) // 2:]):
            c = copy.deepcopy(conn)
            c["q"]["script"] = half
            yield "halve script", c
    if 0 < len(sc) <= 8:
        for i in range(len(sc)):
            c = copy.deepcopy(conn)
            del c["q"]["script"][i]
            yield "drop flight %d" % i, c
    for i, fl in enumerate(sc):
        for d in "cs":
            dl = fl.get(d, [])
            if len(dl) > 1:
                for j in range(len(dl)):
                    c = copy.deepcopy(conn)
                    del c["q"]["script"][i][d][j]
                    yield "flight %d: drop %s datagram %d" % (i, d, j), c
            for j, dg in enumerate(dl):
                if dg.get("act"):
                    c = copy.deepcopy(conn)
                    del c["q"]["script"][i][d][j]["act"]
                    yield "flight %d %s%d: no net action" % (i, d, j), c
                for k, pk in enumerate(dg["pk"]):
                    if len(pk["frames"]) > 1:
                        for m in range(len(pk["frames"])):
                            c = copy.deepcopy(conn)
                            del c["q"]["script"][i][d][j]["pk"][k]["frames"][m]
                            yield "flight %d %s%d: drop frame %d" % (i, d, j, m), c
                    if pk.get("skip"):
                        c = copy.deepcopy(conn)
                        c["q"]["script"][i][d][j]["pk"][k]["skip"] = 0
                        yield "flight %d %s%d: no pn skip" % (i, d, j), c
        for key in ("ku", "cid_switch", "ncid_issue"):
            if key in fl:
                c = copy.deepcopy(conn)
                del c["q"]["script"][i][key]
                yield "flight %d: no %s" % (i, key), c
    for key, simple in (("retry", False), ("zero_rtt", None), ("early_s", False), ("hs_dup", None), ("one_way", None), ("migrate_at", None), ("ncid_len", None), ("vneg_prelude", None), ("ch_retx", None), ("grease_bit", None), ("s_coalesce", False),
                        ("c_coalesce", False), ("ch_cuts", []), ("pad_mode", "frames")):
        if q.get(key) not in (simple, None, False, []):
            c = copy.deepcopy(conn)
            c["q"][key] = simple
            yield "%s -> %s" % (key, simple), c
    if q.get("ch_order") != sorted(q.get("ch_order", [])):
        c = copy.deepcopy(conn)
        c["q"]["ch_order"] = sorted(q["ch_order"])
        yield "crypto frames in order", c
    if q.get("ncid") != {"s": 0, "c": 0}:
        c = copy.deepcopy(conn)
        c["q"]["ncid"] = {"s": 0, "c": 0}
        yield "no new connection ids", c
    if q["offered"] != [q["suite"]]:
        c = copy.deepcopy(conn)
        c["q"]["offered"] = [q["suite"]]
        yield "offer only the negotiated suite", c
    for key in ("scid_c_len", "scid_s_len"):
        if q[key] != 8:
            c = copy.deepcopy(conn)
            c["q"][key] = 8
            yield "%s = 8" % key, c
    if conn.get("v6"):
        pass


# ------------------------------------------------------------------------------------------------------------------
# C15: key oracle
# ------------------------------------------------------------------------------------------------------------------

def check_keys(out, conn, t, pr):
    km = t["keys"]
    tag = "quic suite %04x dcid %d scid %d/%d" % (conn["q"]["suite"], conn["q"]["dcid_len"], conn["q"]["scid_c_len"],
                                                 conn["q"]["scid_s_len"])
    inits = [p for p in pr if p[0] == "q_initial"]
    if not inits:
        out.violate("keys-installed", "no-quic-initial-installation", tag)
        return
    out.nontrivial = True
    out.count("reach:quic_initial")

    def cmp(what, got, want):
        if got != want:
            out.violate("installed-keys-equal-rfc", "wrong:quic-" + what, "%s: %s installed %s, RFC value %s" % (tag, what, got, want))
    # every installation of Initial keys must be the RFC derivation for one of the connection's Initial DCIDs
    models = {m["dcid"]: m for m in km["initial"]}
    for p in inits:
        keys = p[4]
        m = models.get(p[2])
        if m is None and not keys.get("client_initial_key"):
            # an attempt that installed nothing (packet of a version the tool does not know) is not an installation
            out.count("initial_attempt_without_keys")
            continue
        if m is None:
            out.violate("installed-keys-equal-rfc", "wrong:quic-initial-from-wrong-dcid",
                        "%s: Initial keys derived from %s, client's Initial DCIDs were %s" % (tag, p[2], sorted(models)))
            continue
        for a, b in (("client_initial_key", "ckey"), ("client_initial_iv", "civ"), ("client_initial_hp", "chp"),
                     ("server_initial_key", "skey"), ("server_initial_iv", "siv"), ("server_initial_hp", "shp")):
            cmp("initial-" + b, keys.get(a), m[b])
    tls = [p for p in pr if p[0] == "q_tls" and p[2] == "%04x" % conn["q"]["suite"]]
    if tls:
        out.count("reach:quic_tls")
        keys = tls[-1][3]
        for a, b in (("client_handshake_key", "ckey"), ("client_handshake_iv", "civ"), ("client_handshake_hp", "chp"),
                     ("server_handshake_key", "skey"), ("server_handshake_iv", "siv"), ("server_handshake_hp", "shp")):
            cmp("handshake-" + b, keys.get(a), km["hs"][b])
        a0 = km["app"][0]
        for a, b in (("client_application_key", "ckey"), ("client_application_iv", "civ"),
                     ("server_application_key", "skey"), ("server_application_iv", "siv"),
                     ("client_application_sec", "csec"), ("server_application_sec", "ssec")):
            cmp("application-" + b, keys.get(a), a0[b])
        cmp("application-chp", keys.get("client_application_hp"), km["app_hp"]["chp"])
        cmp("application-shp", keys.get("server_application_hp"), km["app_hp"]["shp"])
        if km.get("early"):
            cmp("early-key", keys.get("client_early_key"), km["early"]["key"])
            cmp("early-iv", keys.get("client_early_iv"), km["early"]["iv"])
            cmp("early-hp", keys.get("client_early_hp"), km["early"]["hp"])
    else:
        out.violate("keys-installed", "no-quic-tls-key-installation", tag)
    for p in [p for p in pr if p[0] == "q_epoch"]:
        # RFC 9001 5.4 / 6.1: the header protection keys are not updated by a key update
        out.count("reach:quic_keys_after_key_update")
        for a, b in (("client_application_hp", "chp"), ("server_application_hp", "shp")):
            if p[4].get(a) is not None:
                cmp("application-%s-after-key-update" % b, p[4].get(a), km["app_hp"][b])
    kus = [p for p in pr if p[0] == "q_ku"]
    for i, p in enumerate(kus):
        out.count("reach:quic_ku")
        g = i + 1
        if g >= len(km["app"]):
            # the implementation may derive one generation ahead; derive the model value too
            continue
        m = km["app"][g]
        got = p[1]    # [skey, siv, ckey, civ, ssec, csec]
        for j, b in enumerate(("skey", "siv", "ckey", "civ", "ssec", "csec")):
            cmp("key-update-gen%d-%s" % (g, b), got[j], m[b])
