"""Scenario generation: PRNG -> explicit world spec (JSON-serialisable).  Every decision lands in the spec;
expansion never draws from a PRNG that is not keyed by a value stored in the spec."""
from .rng import Rng
from . import tlsref as T

DEFAULT_PORTS = (443, 44330)

_ALL_PAIRS = None


def all_pairs():
    """every (version, suite) pair the model considers valid, in a fixed order"""
    global _ALL_PAIRS
    if _ALL_PAIRS is None:
        out = []
        for code in sorted(T.SUITES):
            for v in T.valid_versions(T.SUITES[code]):
                out.append((v, code))
        _ALL_PAIRS = out
    return _ALL_PAIRS


def pick_len(R, maxlen=16384, block=16):
    return R.weighted([
        (0, 4), (1, 6), (block - 1, 3), (block, 3), (block + 1, 3), (R.range(2, 64), 25), (R.range(65, 600), 25),
        (R.range(601, 3000), 12), (R.range(3001, 16383), 5), (16384, 3), (16383, 1),
    ]) if maxlen >= 16384 else min(maxlen, R.weighted([(0, 3), (1, 5), (block - 1, 3), (block, 3), (block + 1, 3),
                                                       (R.range(2, 64), 30), (R.range(65, max(66, maxlen)), 30)]))


def gen_endpoints(R, v6, used, server_port=None, client_ip=None, server_ip=None, client_port=None,
                  avoid_ports=()):
    def mac():
        b = bytearray(R.bytes(6))
        b[0] &= 0xFE
        return bytes(b).hex()

    def ip():
        if v6:
            return (b"\x20\x01\x0d\xb8" + R.bytes(12)).hex()
        while True:
            b = R.bytes(4)
            if b[0] not in (0, 127, 255) and b[0] < 224:
                return b.hex()
    for _ in range(1000):
        cp = client_port if client_port is not None else R.range(1024, 65535)
        if cp in DEFAULT_PORTS or cp in avoid_ports or cp == 8080:
            if client_port is not None:
                raise ValueError("client port collides with a server port")
            continue
        c = {"mac": mac(), "ip": client_ip or ip(), "port": cp}
        s = {"mac": mac(), "ip": server_ip or ip(), "port": server_port if server_port is not None else 443}
        if c["ip"] == s["ip"]:
            continue
        key = (c["ip"], c["port"], s["ip"], s["port"])
        if key in used:
            if client_port is not None and client_ip and server_ip:
                raise ValueError("4-tuple reuse")
            continue
        used.add(key)
        return c, s
    raise RuntimeError("endpoint generation failed")


def gen_timing(R, idx=0, policy="concurrent"):
    t = {"lat_c_us": R.range(20, 3000), "lat_s_us": R.range(20, 3000), "lat2_c_us": R.range(20, 3000),
         "lat2_s_us": R.range(20, 3000), "gap_ns": R.choice([700, 3000, 12000, 50000, 400000]),
         "think_us": R.choice([0, 1, 50, 500, 5000, 50000, 2000000]), "rto_us": R.choice([200000, 300000, 1000000])}
    if policy == "concurrent":
        t["start_us"] = R.range(0, 2000)
    elif policy == "staggered":
        t["start_us"] = idx * R.range(100, 20000)
    elif policy == "reverse":
        t["start_us"] = (10 - idx) * 3000
    elif policy == "bursty":
        t["start_us"] = R.range(0, 500)
        t["think_us"] = R.choice([0, 10, 30000])
        t["gap_ns"] = R.choice([700, 1500])
    else:
        t["start_us"] = 0
    return t


def gen_tls_conn(R, cid, cfg, used, pair=None, **epkw):
    """cfg keys (all optional): versions, records_max, len_max, v6_pct, shapes (bool), segment (policy name or None),
    net (dict of fault percentages), ports"""
    if pair is None:
        pairs = all_pairs()
        if cfg.get("versions"):
            pairs = [p for p in pairs if p[0] in cfg["versions"]]
        if cfg.get("suite_filter"):
            pairs = [p for p in pairs if cfg["suite_filter"](T.SUITES[p[1]])]
        # choose the version first (TLS 1.3 has only 5 of the 408 pairs but is what most traffic uses), then the suite
        vers = sorted(set(p[0] for p in pairs))
        wts = {T.SSL30: 10, T.TLS10: 15, T.TLS11: 15, T.TLS12: 35, T.TLS13: 25}
        v = R.weighted([(x, wts.get(x, 10)) for x in vers])
        pair = R.choice([p for p in pairs if p[0] == v])
    ver, code = pair
    s = T.SUITES[code]
    v6 = R.chance(cfg.get("v6_pct", 30))
    c, srv = gen_endpoints(R.fork("ep"), v6, used, **epkw)
    conn = {"id": cid, "proto": "tls", "sub": R.bits(63), "v6": v6, "c": c, "s": srv, "ver": ver, "suite": code}
    shapes = cfg.get("shapes", True)
    H = R.fork("shape")
    conn["sid_len"] = H.choice([0, 32, 32, 32, H.range(1, 31)]) if shapes else 32
    conn["ch_recver"] = H.choice([0x0301, 0x0300 if ver == T.SSL30 else 0x0301, 0x0303 if ver == T.TLS13 else ver])
    nother = H.range(0, 12)
    others = [H.choice(sorted(T.SUITES)) for _ in range(nother)] + ([0x00FF] if H.chance(30) else []) + \
             ([0x5A5A] if H.chance(10) else [])
    conn["offered"] = others
    conn["offered"].insert(H.below(len(others) + 1), code)
    if ver != T.TLS13:
        if s.mode == "cbc" and H.chance(cfg.get("etm_pct", 35)):
            conn["etm"] = True
        conn["resume"] = shapes and H.chance(20)
        conn["sh_ext"] = H.choice(["none", "empty", "rand", "rand"]) if shapes else "rand"
        if ver == T.SSL30 and not conn.get("etm"):
            conn["sh_ext"] = H.choice(["none", "none", "rand"]) if shapes else "none"
            conn["ch_noext"] = H.chance(50)
        if conn.get("resume"):
            conn["sid_len"] = 32 if conn["sid_len"] == 0 else conn["sid_len"]
        else:
            msgs = [[11, H.range(1, 2500)]]
            if H.chance(50):
                msgs.append([12, H.range(4, 400)])
            if H.chance(20):
                msgs.append([13, H.range(4, 60)])
            msgs.append([14, 0])
            if H.chance(15):
                msgs = [[12, H.range(4, 400)], [14, 0]]     # anonymous/PSK: no certificate
            conn["srv_msgs"] = msgs
            conn["srv_group"] = [H.range(1, 3) for _ in range(6)] if shapes else [1] * 6
            cm = []
            if any(m[0] == 13 for m in msgs):
                cm.append([11, H.range(3, 1500)])
            cm.append([16, H.range(2, 300)])
            if len(cm) == 2 and H.chance(70):
                cm.append([15, H.range(8, 300)])
            conn["cli_msgs"] = cm
            conn["cli_group"] = [H.range(1, 3) for _ in range(4)] if shapes else [1] * 4
            if H.chance(30):
                conn["nst"] = H.range(10, 300)
            if cfg.get("shaped_pct") and H.chance(cfg["shaped_pct"]):
                conn["shaped"] = True
        conn["nonce_seq"] = H.chance(60)
    else:
        conn["sid_len"] = H.choice([0, 32, 32])
        conn["hs_secrets"] = not H.chance(cfg.get("no_hs_secrets_pct", 30))
        conn["ccs_s"] = H.chance(70)
        conn["ccs_c"] = H.chance(70)
        conn["psk"] = H.chance(20)
        em = [[8, H.range(2, 120)]]
        if not conn["psk"]:
            if H.chance(20):
                em.append([13, H.range(3, 60)])
            em += [[11, H.range(10, 2500)], [15, H.range(8, 300)]]
        conn["enc_msgs"] = em
        conn["enc_group"] = [H.range(1, 4) for _ in range(6)] if shapes else [9]
        cem = []
        if any(m[0] == 13 for m in em):
            cem = [[11, H.range(4, 1500)], [15, H.range(8, 300)]]
        conn["cli_enc_msgs"] = cem
        conn["cli_enc_group"] = [H.range(1, 3) for _ in range(3)]
        conn["hs_pad"] = H.choice([0, 0, 7, 300]) if cfg.get("tls13_pad", True) else 0
        conn["exporter"] = H.chance(70)
    # application history
    A = R.fork("app")
    nmax = cfg.get("records_max", 40)
    n = A.weighted([(0, 3), (1, 10), (2, 12), (A.range(3, 8), 40), (A.range(9, max(9, nmax)), 20)])
    n = min(n, nmax)
    recs = []
    lm = cfg.get("len_max", 16384)
    block = s.block or 16
    for k in range(n):
        d = A.choice("cs") if A.chance(70) else (recs[-1]["d"] if recs else "c")
        ln = pick_len(A, lm, block)
        r = {"k": k, "d": d, "n": ln}
        if ver == T.TLS13 and cfg.get("tls13_pad", True) and A.chance(35):
            r["pad"] = A.choice([1, 2, 15, 16, 255, A.range(1, 1000)])
        elif ver in (T.TLS10, T.TLS11, T.TLS12) and s.mode == "cbc" and A.chance(25):
            r["pad"] = A.choice([1, 2, 15, 16])   # extra padding blocks (up to 255 bytes total)
        recs.append(r)
    conn["recs"] = recs
    fl = []
    left = n
    while left > 0:
        g = min(left, A.weighted([(1, 50), (2, 20), (3, 10), (A.range(4, 10), 10)]))
        fl.append(g)
        left -= g
    conn["fl"] = fl
    conn["merge_first"] = shapes and A.chance(30)
    if shapes and A.chance(25) and recs:
        side = "s" if ver == T.TLS13 else "c"
        if recs[0]["d"] == side and not conn.get("resume"):
            conn["early_data_side"] = side
    HRR = R.fork("hrr")
    if ver == T.TLS13 and HRR.chance(cfg.get("hrr_pct", 0)):
        conn["hrr"] = {"ccs_s": HRR.chance(60), "ccs_c": HRR.chance(60)}
    HR = R.fork("helloreq")
    if ver != T.TLS13 and n >= 1 and HR.chance(cfg.get("hello_request_pct", 8)):
        conn["hello_req"] = [HR.range(0, n)]
    if ver == T.TLS13 and n >= 0 and A.chance(cfg.get("ticket_pct", 50)):
        tk = {}
        for _ in range(A.range(1, 2)):
            tk[str(A.range(0, n))] = A.range(10, 250)
        conn["tickets"] = tk
    conn["close"] = A.chance(30)
    # TCP
    N = R.fork("tcp")
    isn = lambda: N.weighted([(N.bits(32), 50), ((1 << 32) - N.range(1, 3000), 30), ((1 << 32) - N.range(1, 60000), 10),  # noqa
                              (N.range(0, 5), 10)])
    conn["tcp"] = {"isn_c": isn(), "isn_s": isn(), "ctl": N.chance(80), "fin": N.chance(70), "opts": N.chance(40),
                   "cutmode": "record"}
    conn["tcp"]["psh_mode"] = R.fork("pshmode").weighted([("all", 35), ("last", 45), ("random", 20)])
    if not cfg.get("isn_wrap", True):
        conn["tcp"]["isn_c"] = N.range(1, 1 << 30)
        conn["tcp"]["isn_s"] = N.range(1, 1 << 30)
    conn["pad_eth"] = N.chance(70)
    conn["t"] = gen_timing(R.fork("t"), cid, cfg.get("policy", "concurrent"))
    return conn


SEG_POLICIES = ("record", "mss", "random", "onebyte", "rec_pm1", "header_split", "coalesce")


def gen_cuts(R, conn, streams_len, recbounds, policy=None):
    """explicit cut lists for both directions.  recbounds[d] = sorted list of record end offsets"""
    policy = policy or R.choice(SEG_POLICIES)
    cuts = {}
    for d in ("c", "s"):
        n = streams_len[d]
        cs = set()
        if policy == "record":
            cs = set(recbounds[d])
        elif policy == "mss":
            mss = R.choice([1, 5, 7, 100, 536, 1220, 1460, 1460, 8960, 16000])
            cs = set(range(mss, n, mss))
            if n // mss > 1000:
                # tiny segments only over a window: TLExport's reassembly is quadratic in the number of buffered
                # segments, thousands of them cost tens of CPU seconds (performance is not a property under test)
                a = R.range(0, n - 1)
                cs = set(range(a, min(n, a + 800 * mss), mss))
        elif policy == "random":
            k = R.range(0, min(60, max(1, n // 2)))
            cs = set(R.range(1, max(1, n - 1)) for _ in range(k))
        elif policy == "onebyte":
            a = R.range(0, max(0, n - 1))
            cs = set(range(a, min(n, a + R.range(5, 120))))
            cs |= set(recbounds[d])
        elif policy == "rec_pm1":
            for b in recbounds[d]:
                cs.add(b + R.choice([-1, 0, 1, -2, 2, -5, 5]))
        elif policy == "header_split":
            starts = [0] + list(recbounds[d])
            for b in starts:
                if R.chance(60):
                    cs.add(b + R.range(1, 4))
                if R.chance(40):
                    cs.add(b)
        elif policy == "coalesce":
            for b in recbounds[d]:
                if R.chance(25):
                    cs.add(b)
        cuts[d] = sorted(c for c in cs if 0 < c < n)
    return policy, cuts


def gen_net_acts(R, nseg, cfg, protect_first=False):
    """per-segment network actions for one direction.  cfg: dict kind -> per-mille.
    protect_first: the first segment of the direction is never displaced (known finding KF-1 concerns the client's
    first segment; only C05, which owns that finding, displaces it)"""
    acts = []
    for i in range(nseg):
        for kind, pct in sorted(cfg.items()):
            if kind.startswith("_"):
                continue
            if protect_first and i == 0 and kind in ("delay", "lost_before"):
                continue
            if pct and R.chance(pct, 1000):
                if kind == "delay":
                    acts.append([i, "delay", R.range(1, cfg.get("_D", 4))])
                elif kind == "early":
                    if i >= 2:
                        k = R.range(2, min(i, cfg.get("_D", 4)))
                        if protect_first and i - k <= 0:
                            k = i - 1          # never overtakes the first segment of the direction
                        if k >= 1:
                            acts.append([i, "early", k])
                elif kind == "lost_before":
                    acts.append([i, "lost_before"])
                elif kind == "dup":
                    acts.append([i, "dup", R.range(0, 4)])
                elif kind in ("dup_merge", "dup_half"):
                    acts.append([i, kind, R.range(0, 4)])
                elif kind == "keepalive":
                    acts.append([i, "keepalive"])
                elif kind == "dup_rto":
                    acts.append([i, "dup_rto"])
                elif kind == "dup_late":
                    acts.append([i, "dup_late", 0])
                break
    return acts


def gen_tap(R, cfg=None):
    cfg = cfg or {}
    # 2001 .. 2036, arbitrary sub-second part
    epoch = R.range(978307200, 2082758400) * 1000000 + R.range(0, 999999)
    tap = {"epoch_us": epoch, "res_us": 1}
    return tap


def make_resumption_of(R, conn, orig):
    """turn `conn` into an abbreviated handshake that resumes `orig` (TLS <= 1.2): same version, suite and master
    secret, fresh randoms"""
    if orig["proto"] != "tls" or conn["proto"] != "tls" or orig["ver"] == T.TLS13:
        return False
    conn["ver"], conn["suite"] = orig["ver"], orig["suite"]
    conn["etm"] = bool(orig.get("etm"))
    conn["resume"] = True
    conn["sid_len"] = 32
    conn["sh_ext"] = "rand" if conn["etm"] else conn.get("sh_ext", "rand")
    if conn["suite"] not in conn.get("offered", []):
        conn["offered"] = [conn["suite"]] + list(conn.get("offered", []))
    orig.setdefault("master_seed", R.bits(60))
    conn["master_seed"] = orig["master_seed"]
    conn.pop("early_data_side", None)
    for r in conn.get("recs", []):
        r.pop("pad", None)
    for k in ("srv_msgs", "srv_group", "cli_msgs", "cli_group", "nst", "shaped", "tickets"):
        conn.pop(k, None)
    conn["resumes"] = orig["id"]
    return True


def gen_http_conn(R, cid, used, port=443, v6=False, **epkw):
    c, s = gen_endpoints(R.fork("ep"), v6, used, server_port=port, **epkw)
    msgs = [[R.choice("cs") if i else "c", R.range(1, 1200)] for i in range(R.range(1, 5))]
    return {"id": cid, "proto": "http", "sub": R.bits(63), "v6": v6, "c": c, "s": s, "msgs": msgs,
            "text": R.chance(70), "tcp": {"isn_c": R.bits(32), "isn_s": R.bits(32), "ctl": R.chance(70),
                                          "cutmode": "record"},
            "pad_eth": R.chance(50), "t": gen_timing(R.fork("t"), cid)}


def gen_udp_noise(R, cid, used, v6=False, port=None, **epkw):
    """arbitrary UDP: DNS-like, random bytes 1..1500, QUIC-looking garbage"""
    port = port if port is not None else R.choice([53, 443, 443, 123, R.range(1, 65535)])
    c, s = gen_endpoints(R.fork("ep"), v6, used, server_port=port, **epkw)
    dg = []
    for i in range(R.range(1, 6)):
        kind = R.weighted([("dns", 20), ("rand", 30), ("quicish", 25), ("short", 15), ("vneg", 5), ("zeros", 5)])
        if kind == "dns":
            b = R.bytes(2) + b"\x01\x00\x00\x01\x00\x00\x00\x00\x00\x00" + b"\x07example\x03org\x00\x00\x01\x00\x01"
            if R.chance(50):
                b = bytes([b[0] | 0x40]) + b[1:]
        elif kind == "rand":
            b = R.bytes(R.weighted([(R.range(1, 8), 30), (R.range(9, 200), 40), (R.range(201, 1500), 30)]))
        elif kind == "quicish":
            dcl = R.range(0, 20)
            scl = R.range(0, 20)
            first = 0xC0 | (R.below(4) << 4) | R.below(16)
            ver = R.choice([1, 1, 1, 2, 0x6b3343cf, 0xff00001d, R.bits(32)])
            b = bytes([first]) + ver.to_bytes(4, "big") + bytes([dcl]) + R.bytes(dcl) + bytes([scl]) + R.bytes(scl)
            b += R.bytes(R.range(0, 1200))
            if R.chance(30):
                b = b[:R.range(1, len(b))]
        elif kind == "short":
            b = bytes([0x40 | R.below(64)]) + R.bytes(R.range(0, 30))
            if R.chance(30):
                b = bytes([0xC0 | R.below(64)]) + R.bytes(R.range(0, 5))
        elif kind == "vneg":
            b = bytes([0x80 | R.below(128)]) + b"\x00\x00\x00\x00" + bytes([8]) + R.bytes(8) + bytes([8]) + R.bytes(8) + \
                b"\x00\x00\x00\x01" * R.range(0, 3)
        else:
            b = bytes([0x40]) + b"\x00" * R.range(0, 40)
        dg.append([R.choice("cs") if i else "c", b.hex()])
    return {"id": cid, "proto": "udp", "sub": R.bits(63), "v6": v6, "c": c, "s": s, "dgrams": dg,
            "pad_eth": R.chance(50), "t": gen_timing(R.fork("t"), cid), "unique_ts": True}


def gen_tls_world(R, cfg, nconn=None, with_noise=False):
    """mixed world of TLS connections (QUIC added by gen_mixed_world), with segmentation and optional network actions"""
    from .props.base import apply_segmentation
    used = set()
    n = nconn if nconn is not None else R.weighted([(1, 40), (2, 35), (3, 25)])
    policy = R.choice(["concurrent", "concurrent", "staggered", "bursty", "sequential", "reverse"])
    c2 = dict(cfg)
    c2["policy"] = policy
    conns = []
    for j in range(n):
        c = gen_tls_conn(R.fork("conn", j), j, c2, used)
        if conns and R.chance(cfg.get("resumption_pct", 20)):
            make_resumption_of(R.fork("resume", j), c, R.choice(conns))
        if R.chance(cfg.get("seg_pct", 70)):
            apply_segmentation(R.fork("seg", j), c, net=cfg.get("net") if R.chance(cfg.get("net_pct", 0)) else None)
        conns.append(c)
    if with_noise:
        k = len(conns)
        if R.chance(50):
            conns.append(gen_http_conn(R.fork("http"), k, used, port=R.choice([443, 44330, 80]), v6=R.chance(30)))
            k += 1
        if R.chance(60):
            conns.append(gen_udp_noise(R.fork("udp"), k, used, v6=R.chance(30)))
    return {"conns": conns, "tap": gen_tap(R.fork("tap")), "policy": "sequential" if policy == "sequential" else policy}


def gen_mixed_world(R, cfg, with_noise=False, nconn=None):
    """TLS + QUIC mixed world (QUIC share controlled by cfg['quic_pct'])"""
    spec = gen_tls_world(R, cfg, nconn=nconn, with_noise=with_noise)
    qp = cfg.get("quic_pct", 0)
    import os
    if qp and not os.path.exists(os.path.join(os.path.dirname(__file__), "quicpeer.py")):
        qp = 0
    if qp:
        from . import quicpeer
        used = set((c["c"]["ip"], c["c"]["port"], c["s"]["ip"], c["s"]["port"]) for c in spec["conns"])
        k = max([c["id"] for c in spec["conns"]] + [-1]) + 1
        Q = R.fork("quic")
        # replace some TLS connections by QUIC ones / add
        newc = []
        for c in spec["conns"]:
            if c["proto"] == "tls" and Q.chance(qp):
                newc.append(quicpeer.gen_quic_conn(Q.fork("q", c["id"]), c["id"], cfg.get("quic", {}), used))
            else:
                newc.append(c)
        spec["conns"] = newc
    return spec
