"""Capture containers written by the simulated tap: pcapng (LE/BE, any if_tsresol/if_tsoffset,
interleaved non-packet blocks, DSBs) and legacy pcap (us/ns magic, LE/BE).  struct only.

items: list of ("pkt", ts_us:int, frame:bytes) | ("dsb", text:bytes) | ("blk", kind:str, seed:int)
cfg:   {"fmt": "pcapng"|"pcap", "be": bool, "tsresol": None|("dec",k)|("bin",k), "tsoffset": int seconds,
        "ns": bool (pcap only), "shb_opts": bool, "epb_opts": bool}
"""
import struct

from .rng import Rng


def _pad4(b):
    return b + b"\x00" * ((4 - len(b) % 4) % 4)


def _opt(e, code, data):
    return struct.pack(e + "HH", code, len(data)) + _pad4(data)


def _block(e, btype, body):
    total = 12 + len(body)
    assert total % 4 == 0
    return struct.pack(e + "II", btype, total) + body + struct.pack(e + "I", total)


def ts_units(ts_us, cfg):
    """convert integer microseconds since epoch to (units) for the interface's resolution; exact or None"""
    res = cfg.get("tsresol")
    off = cfg.get("tsoffset", 0)
    rel = ts_us - off * 1000000
    assert rel >= 0, "timestamp before if_tsoffset is not representable"
    if res is None:
        return rel
    kind, k = res
    if kind == "dec":
        if k >= 6:
            return rel * 10 ** (k - 6)
        d = 10 ** (6 - k)
        assert rel % d == 0, "timestamp not representable"
        return rel // d
    else:
        # 2^-k: choose the nearest unit (only used with k >= 24 where rounding back to us is unambiguous)
        num = rel * (1 << k)
        q, r = divmod(num, 1000000)
        if 2 * r >= 1000000:
            q += 1
        return q


def write_pcapng(items, cfg):
    e = ">" if cfg.get("be") else "<"
    out = []
    shb_body = struct.pack(e + "IHHq", 0x1A2B3C4D, 1, 0, -1)
    if cfg.get("shb_opts"):
        shb_body += _opt(e, 2, b"simtle hw") + _opt(e, 3, b"simtle os") + _opt(e, 4, b"simtle tap") + _opt(e, 0, b"")
    out.append(_block(e, 0x0A0D0D0A, shb_body))
    if cfg.get("dsb_before_idb"):
        # legal: a Decryption Secrets Block may precede the Interface Description Block
        rest = []
        for it in items:
            if it[0] == "dsb" and not any(x[0] == "pkt" for x in rest):
                text = it[1]
                out.append(_block(e, 0x0A, struct.pack(e + "II", 0x544C534B, len(text)) + _pad4(text)))
            else:
                rest.append(it)
        items = rest
    idb = struct.pack(e + "HHI", 1, 0, cfg.get("snaplen", 0x40000))
    opts = b""
    if cfg.get("idb_name"):
        opts += _opt(e, 2, b"tap0")
    res = cfg.get("tsresol")
    o_res = o_off = b""
    if res is not None:
        kind, k = res
        o_res = _opt(e, 9, bytes([k | (0x80 if kind == "bin" else 0)]))
    if cfg.get("tsoffset", 0) != 0 or cfg.get("force_tsoffset"):
        o_off = _opt(e, 14, struct.pack(e + "q", cfg.get("tsoffset", 0)))
    # options may come in any order
    opts += (o_off + o_res) if cfg.get("tsoffset_first") else (o_res + o_off)
    if opts:
        opts += _opt(e, 0, b"")
    ifid = 0
    if cfg.get("first_idb_linktype") is not None:
        # a capture of several interfaces whose first one is not Ethernet (loopback, raw IP, Linux cooked) and saw none
        # of the packets; same timestamp options; every packet belongs to interface 1
        out.append(_block(e, 1, struct.pack(e + "HHI", cfg["first_idb_linktype"], 0, cfg.get("snaplen", 0x40000)) + opts))
        ifid = 1
    out.append(_block(e, 1, idb + opts))
    npk = 0
    sec_at = cfg.get("sections")
    for it in items:
        if it[0] == "pkt":
            npk += 1
            if sec_at is not None and npk == sec_at + 1:
                # a second section starts here (two captures of the same interface written one after the other):
                # section header and interface description are repeated
                out.append(_block(e, 0x0A0D0D0A, shb_body))
                if ifid:
                    out.append(_block(e, 1, struct.pack(e + "HHI", cfg["first_idb_linktype"], 0, cfg.get("snaplen", 0x40000)) + opts))
                out.append(_block(e, 1, idb + opts))
        if it[0] == "pkt":
            _, ts_us, fr = it
            u = ts_units(ts_us, cfg)
            body = struct.pack(e + "IIIII", ifid, (u >> 32) & 0xFFFFFFFF, u & 0xFFFFFFFF, len(fr), len(fr)) + _pad4(fr)
            if cfg.get("epb_opts"):
                body += _opt(e, 1, b"pkt") + _opt(e, 2, struct.pack(e + "I", 1)) + _opt(e, 0, b"")
            out.append(_block(e, 6, body))
        elif it[0] == "dsb":
            text = it[1]
            body = struct.pack(e + "II", 0x544C534B, len(text)) + _pad4(text)
            out.append(_block(e, 0x0A, body))
        elif it[0] == "blk":
            kind, seed = it[1], it[2]
            r = Rng(seed, "blk", kind)
            if kind == "nrb":
                recs = b""
                for _ in range(r.range(1, 3)):
                    name = b"host%d.example" % r.below(1000) + b"\x00"
                    val = r.bytes(4) + name
                    recs += struct.pack(e + "HH", 1, len(val)) + _pad4(val)
                recs += struct.pack(e + "HH", 0, 0)
                out.append(_block(e, 4, recs))
            elif kind == "isb":
                body = struct.pack(e + "III", 0, r.bits(20), r.bits(32))
                body += _opt(e, 4, struct.pack(e + "Q", r.bits(30))) + _opt(e, 0, b"")
                out.append(_block(e, 5, body))
            elif kind == "custom":
                body = struct.pack(e + "I", 32473) + _pad4(r.bytes(r.range(0, 40)))
                out.append(_block(e, 0x00000BAD, body))
            elif kind == "custom_nocopy":
                body = struct.pack(e + "I", 32473) + _pad4(r.bytes(r.range(0, 40)))
                out.append(_block(e, 0x40000BAD, body))
            elif kind == "idb2":
                # description of a further, unused interface with its own timestamp resolution / offset; every packet
                # of the capture still belongs to interface 0
                o2 = _opt(e, 2, b"usb%d" % r.below(4))
                if r.chance(70):
                    o2 += _opt(e, 9, bytes([r.choice([3, 9, 0x80 | 10, 0x80 | 20, 6])]))
                if r.chance(40):
                    o2 += _opt(e, 14, struct.pack(e + "q", r.choice([1, -1, 3600, 86400 * 365])))
                o2 += _opt(e, 0, b"")
                out.append(_block(e, 1, struct.pack(e + "HHI", r.choice([1, 220, 127]), 0, 0x40000) + o2))
            elif kind == "unknown":
                out.append(_block(e, 0x00000BB0 + r.below(8), _pad4(r.bytes(r.range(0, 64)))))
            else:
                raise ValueError(kind)
        else:
            raise ValueError(it[0])
    if cfg.get("trailing_section"):
        # a further (empty) section behind everything: header and interface description only
        out.append(_block(e, 0x0A0D0D0A, shb_body))
        out.append(_block(e, 1, idb + opts))
    return b"".join(out)


def write_pcap(items, cfg):
    e = ">" if cfg.get("be") else "<"
    ns = bool(cfg.get("ns"))
    magic = 0xA1B23C4D if ns else 0xA1B2C3D4
    out = [struct.pack(e + "IHHiIII", magic, 2, 4, 0, 0, cfg.get("snaplen", 0x40000), 1)]
    for it in items:
        if it[0] != "pkt":
            continue
        _, ts_us, fr = it
        sec, us = divmod(ts_us, 1000000)
        sub = us * 1000 if ns else us
        out.append(struct.pack(e + "IIII", sec, sub, len(fr), len(fr)) + fr)
    return b"".join(out)


def write_capture(items, cfg):
    if cfg.get("fmt", "pcapng") == "pcap":
        return write_pcap(items, cfg)
    return write_pcapng(items, cfg)
