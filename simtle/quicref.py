"""Reference QUIC v1 model written from RFC 9000 / 9001 / 9221.  Shares no code with tlexport."""
import struct
import warnings

from .tlsref import hkdf_extract, hkdf_expand_label, hkdf_expand

with warnings.catch_warnings():
    warnings.simplefilter("ignore")
    from cryptography.hazmat.primitives.ciphers import Cipher, algorithms, modes
    from cryptography.hazmat.primitives.ciphers.aead import AESGCM, AESCCM, ChaCha20Poly1305

V1_SALT = bytes.fromhex("38762cf7f55934b34d179ae6a4c80cadccbb7f0a")
RETRY_KEY = bytes.fromhex("be0c690b9f66575a1d766b54e368c84e")
RETRY_NONCE = bytes.fromhex("461599d35d632bf2239825bb")

SUITE = {
    0x1301: ("sha256", 16, "gcm"),
    0x1302: ("sha384", 32, "gcm"),
    0x1303: ("sha256", 32, "chacha"),
    0x1304: ("sha256", 16, "ccm"),
}
INITIAL, ZERO_RTT, HANDSHAKE, RETRY = 0, 1, 2, 3
ONE_RTT = 4


def varint(v, width=None):
    minimal = 1 if v < 64 else 2 if v < 16384 else 4 if v < (1 << 30) else 8
    if width is None or width < minimal:
        width = minimal        # a requested (non-minimal) width that cannot hold the value is widened
    assert v < (1 << (8 * width - 2)), (v, width)
    return (v | ({1: 0, 2: 1, 4: 2, 8: 3}[width] << (8 * width - 2))).to_bytes(width, "big")


def read_varint(b, pos):
    w = 1 << (b[pos] >> 6)
    v = int.from_bytes(b[pos:pos + w], "big") & ((1 << (8 * w - 2)) - 1)
    return v, pos + w


class Keys:
    """packet protection keys of one direction and level"""
    __slots__ = ("secret", "key", "iv", "hp", "hashname", "keylen", "mode")

    def __init__(self, secret, hashname, keylen, mode, hp=None):
        self.secret = secret
        self.hashname, self.keylen, self.mode = hashname, keylen, mode
        self.key = hkdf_expand_label(hashname, secret, b"quic key", b"", keylen)
        self.iv = hkdf_expand_label(hashname, secret, b"quic iv", b"", 12)
        self.hp = hp if hp is not None else hkdf_expand_label(hashname, secret, b"quic hp", b"", keylen)

    def next_generation(self):
        nxt = hkdf_expand_label(self.hashname, self.secret, b"quic ku", b"", len(self.secret))
        return Keys(nxt, self.hashname, self.keylen, self.mode, hp=self.hp)   # header protection key is not updated

    def aead(self):
        if self.mode == "gcm":
            return AESGCM(self.key)
        if self.mode == "ccm":
            return AESCCM(self.key, tag_length=16)
        return ChaCha20Poly1305(self.key)

    def hp_mask(self, sample):
        if self.mode == "chacha":
            ctr = sample[:4]
            nonce = sample[4:16]
            enc = Cipher(algorithms.ChaCha20(self.hp, ctr + nonce), mode=None).encryptor()
            return enc.update(b"\x00" * 5)
        enc = Cipher(algorithms.AES(self.hp), modes.ECB()).encryptor()
        return enc.update(sample)[:5]


def initial_keys(dcid):
    init = hkdf_extract("sha256", V1_SALT, dcid)
    c = hkdf_expand_label("sha256", init, b"client in", b"", 32)
    s = hkdf_expand_label("sha256", init, b"server in", b"", 32)
    return Keys(c, "sha256", 16, "gcm"), Keys(s, "sha256", 16, "gcm")


def suite_keys(suite, secret):
    h, kl, mode = SUITE[suite]
    return Keys(secret, h, kl, mode)


def protect(keys: Keys, header_wo_pn: bytes, pn: int, pnlen: int, payload: bytes, long_header: bool):
    """header_wo_pn: header bytes up to (not including) the packet number, with the pn-length bits already set in the
    first byte and (long header) the Length field already covering pnlen + len(payload) + 16"""
    pnb = (pn & ((1 << (8 * pnlen)) - 1)).to_bytes(pnlen, "big")
    header = header_wo_pn + pnb
    nonce = bytes(a ^ b for a, b in zip(keys.iv, pn.to_bytes(12, "big")))
    ct = keys.aead().encrypt(nonce, payload, header)
    pkt = bytearray(header + ct)
    pn_off = len(header_wo_pn)
    sample = bytes(pkt[pn_off + 4:pn_off + 20])
    assert len(sample) == 16, "packet too short for header protection sample"
    mask = keys.hp_mask(sample)
    pkt[0] ^= mask[0] & (0x0F if long_header else 0x1F)
    for i in range(pnlen):
        pkt[pn_off + i] ^= mask[1 + i]
    return bytes(pkt)


def unprotect(keys: Keys, pkt: bytes, pn_off: int, largest: int, long_header: bool, end=None):
    """inverse (receiver side) used for validation: -> (first byte, pn, payload)"""
    pkt = bytearray(pkt if end is None else pkt[:end])
    sample = bytes(pkt[pn_off + 4:pn_off + 20])
    mask = keys.hp_mask(sample)
    pkt[0] ^= mask[0] & (0x0F if long_header else 0x1F)
    pnlen = (pkt[0] & 3) + 1
    for i in range(pnlen):
        pkt[pn_off + i] ^= mask[1 + i]
    trunc = int.from_bytes(pkt[pn_off:pn_off + pnlen], "big")
    pn = decode_pn(largest, trunc, pnlen * 8)
    header = bytes(pkt[:pn_off + pnlen])
    nonce = bytes(a ^ b for a, b in zip(keys.iv, pn.to_bytes(12, "big")))
    payload = keys.aead().decrypt(nonce, bytes(pkt[pn_off + pnlen:]), header)
    return pkt[0], pn, payload


def decode_pn(largest, truncated, bits):
    """RFC 9000 Appendix A.3 (largest = -1 when nothing has been received: expected = 0)"""
    expected = largest + 1
    win = 1 << bits
    hwin = win // 2
    mask = win - 1
    cand = (expected & ~mask) | truncated
    if cand <= expected - hwin and cand < (1 << 62) - win:
        return cand + win
    if cand > expected + hwin and cand >= win:
        return cand - win
    return cand


def long_header(ptype, dcid, scid, pnlen, length, token=None, reserved=0, fixed=1, length_width=None):
    first = 0x80 | (fixed << 6) | (ptype << 4) | ((reserved & 3) << 2) | (pnlen - 1)
    h = bytes([first]) + b"\x00\x00\x00\x01" + bytes([len(dcid)]) + dcid + bytes([len(scid)]) + scid
    if ptype == INITIAL:
        tok = token if isinstance(token, (bytes, bytearray)) else b""
        h += varint(len(tok), getattr(token, "width", None) if not isinstance(token, (bytes, bytearray)) else None) + tok
    h += varint(length, length_width)
    return h


def short_header(dcid, pnlen, key_phase, spin=0, reserved=0, fixed=1):
    first = (fixed << 6) | ((spin & 1) << 5) | ((reserved & 3) << 3) | ((key_phase & 1) << 2) | (pnlen - 1)
    return bytes([first]) + dcid


def retry_packet(dcid, scid, token, odcid, unused=0):
    first = 0x80 | 0x40 | (RETRY << 4) | (unused & 0x0F)
    body = bytes([first]) + b"\x00\x00\x00\x01" + bytes([len(dcid)]) + dcid + bytes([len(scid)]) + scid + token
    pseudo = bytes([len(odcid)]) + odcid + body
    tag = AESGCM(RETRY_KEY).encrypt(RETRY_NONCE, b"", pseudo)
    return body + tag


# ---- frames ---------------------------------------------------------------------------------------------------

def f_padding(n):
    return b"\x00" * n


def f_ping():
    return b"\x01"


def f_ack(largest, delay, first_range, ranges=(), ecn=None, w=None):
    b = bytes([0x03 if ecn else 0x02]) + varint(largest, w) + varint(delay, w) + varint(len(ranges), w) + varint(first_range, w)
    for gap, ln in ranges:
        b += varint(gap, w) + varint(ln, w)
    if ecn:
        for x in ecn:
            b += varint(x, w)
    return b


def f_crypto(offset, data, w=None, lw=None):
    return b"\x06" + varint(offset, w) + varint(len(data), lw) + data


def f_stream(sid, offset, data, fin=False, explicit_len=True, w=None, ow=None, lw=None, force_off=False):
    t = 0x08 | (0x04 if (offset or force_off) else 0) | (0x02 if explicit_len else 0) | (0x01 if fin else 0)
    b = bytes([t]) + varint(sid, w)
    if offset or force_off:
        b += varint(offset, ow)
    if explicit_len:
        b += varint(len(data), lw)
    return b + data


def f_new_cid(seq, retire, cid, token, w=None):
    return b"\x18" + varint(seq, w) + varint(retire, w) + bytes([len(cid)]) + cid + token


def f_simple(ftype, *vals, w=None):
    return bytes([ftype]) + b"".join(varint(v, w) for v in vals)


def f_new_token(tok, w=None):
    return b"\x07" + varint(len(tok), w) + tok


def f_path(ftype, data8):
    return bytes([ftype]) + data8


def f_close(app, code, ftype, reason, w=None):
    b = bytes([0x1d if app else 0x1c]) + varint(code, w)
    if not app:
        b += varint(ftype, w)
    return b + varint(len(reason), w) + reason


def f_datagram(data, explicit_len=True, w=None):
    if explicit_len:
        return b"\x31" + varint(len(data), w) + data
    return b"\x30" + data


def f_handshake_done():
    return b"\x1e"
