"""Simulated TLS endpoints: turn a connection spec into the flights of records both peers put on the wire,
the key-log lines their stacks write, the key material they hold, and the ground truth.  Pure function of the spec."""
import struct

from .rng import Rng
from . import tlsref as T


class WRec:
    __slots__ = ("d", "kind", "raw", "app", "k", "inner")

    def __init__(self, d, kind, raw, app=None, k=None, inner=None):
        self.d, self.kind, self.raw, self.app, self.k, self.inner = d, kind, raw, app, k, inner


def _partition(items, sizes):
    out = []
    i = 0
    for s in sizes:
        if i >= len(items):
            break
        out.append(items[i:i + s])
        i += s
    if i < len(items):
        out.append(items[i:])
    return [g for g in out if g]


def _ch_extensions(R, ver, conn):
    ex = []
    if R.chance(70):
        name = b"host%d.example.org" % R.below(10000)
        ex.append(T.ext(0, struct.pack(">HBH", len(name) + 3, 0, len(name)) + name))
    if R.chance(50):
        ex.append(T.ext(0x000b, b"\x01\x00"))
    if R.chance(50):
        ex.append(T.ext(0x000a, b"\x00\x04\x00\x1d\x00\x17"))
    if conn.get("etm") or R.chance(30):
        ex.append(T.ext(0x0016, b""))
    if R.chance(40):
        ex.append(T.ext(0x0017, b""))
    if R.chance(30):
        ex.append(T.ext(0x0023, R.bytes(R.below(64))))
    if ver == T.TLS13:
        ex.append(T.ext(0x002b, b"\x04\x03\x04\x03\x03"))
        ex.append(T.ext(0x0033, struct.pack(">HHH", 36, 0x001d, 32) + R.bytes(32)))
        ex.append(T.ext(0x000d, b"\x00\x04\x04\x03\x08\x04"))
    if R.chance(20):
        ex.append(T.ext(0x0015, b"\x00" * R.below(100)))
    R.shuffle(ex)
    return ex


def _shaped_blob(R, n):
    """bytes that look like an extension list containing 0x0016 and 0x002b entries (adversarial but legal
    content for an opaque handshake message body)"""
    b = T.ext(0x0016, b"") + T.ext(0x002b, b"\x03\x04") + T.ext(0x0017, b"")
    out = b""
    while len(out) < n:
        out += b
    return out[:n]


def build(conn):
    R = Rng(conn["sub"], "tls")
    ver = conn["ver"]
    s = T.SUITES[conn["suite"]]
    crand = R.fork("crand").bytes(32)
    srand = R.fork("srand").bytes(32)
    sid = R.fork("sid").bytes(conn.get("sid_len", 0))
    etm = bool(conn.get("etm"))
    flights = []
    keylog = []   # (flight index after which the line exists, label, secret)
    keys = {"version": ver, "suite": conn["suite"], "etm": etm, "client_random": crand.hex()}

    def blob(label, n, shaped=False):
        if shaped:
            return _shaped_blob(R.fork("blob", label), n)
        return R.fork("blob", label).bytes(n)

    wirever = T.TLS12 if ver == T.TLS13 else ver
    ch_rv = conn.get("ch_recver", 0x0301)
    offered = list(conn.get("offered") or [conn["suite"]])
    if conn["suite"] not in offered:
        offered.insert(R.below(len(offered) + 1), conn["suite"])
    ch_ext = None if (conn.get("ch_noext") and ver != T.TLS13) else _ch_extensions(R.fork("chext"), ver, conn)
    ch_sid = sid if (conn.get("resume") or ver == T.TLS13) else R.fork("chsid").bytes(conn.get("ch_sid_len", 0))
    ch = T.client_hello(wirever, crand, ch_sid, offered, ch_ext)
    ch_rec = T.record(22, ch_rv, ch)
    flights.append({"c": [WRec("c", "hs", ch_rec)], "s": []})

    # ServerHello
    shx = conn.get("sh_ext", "rand")
    if ver == T.TLS13:
        exts = [T.ext(0x002b, b"\x03\x04"), T.ext(0x0033, struct.pack(">HH", 0x001d, 32) + R.fork("ks").bytes(32))]
        if conn.get("psk"):
            exts.append(T.ext(0x0029, b"\x00\x00"))
        if conn.get("sh_ext_order"):
            exts.reverse()
        sh = T.server_hello(T.TLS12, srand, sid, conn.get("sh_suite_wire", conn["suite"]), exts)
    else:
        if shx == "none":
            exts = None
        elif shx == "empty":
            exts = []
        else:
            RX = R.fork("shext")
            exts = []
            if RX.chance(60):
                exts.append(T.ext(0xff01, b"\x00"))
            if RX.chance(40):
                exts.append(T.ext(0x000b, b"\x01\x00"))
            if RX.chance(30):
                exts.append(T.ext(0x0023, b""))
            if RX.chance(30):
                exts.append(T.ext(0x0017, b""))
            if RX.chance(30):
                exts.append(T.ext(0x0010, b"\x00\x09\x08http/1.1"))
            RX.shuffle(exts)
        if etm:
            if exts is None:
                exts = []
            exts.insert(R.fork("etmpos").below(len(exts) + 1), T.ext(0x0016, b""))
        sh = T.server_hello(ver, srand, sid, conn.get("sh_suite_wire", conn["suite"]), exts)
    keys["ch_record"] = ch_rec.hex()

    if ver != T.TLS13:
        # a resumed session shares the master secret of the session it resumes (different randoms, hence keys)
        master = (Rng(conn["master_seed"], "master") if conn.get("master_seed") is not None else R.fork("master")).bytes(48)
        kb = T.key_block_legacy(ver, s, master, crand, srand)
        keys.update({k: v.hex() for k, v in kb.items()})
        W = {"c": T.WriteState(ver, s, kb["ckey"], kb["cmac"], kb["civ"], etm),
             "s": T.WriteState(ver, s, kb["skey"], kb["smac"], kb["siv"], etm)}
        ivc = {"c": 0, "s": 0}

        def seal(d, ctype, pt, pad=0):
            W_ = W[d]
            explicit = None
            if s.mode == "cbc" and ver in (T.TLS11, T.TLS12):
                explicit = R.fork("xiv", d, ivc[d]).bytes(s.block)
            elif s.mode in ("gcm", "ccm"):
                if conn.get("nonce_seq", True):
                    explicit = struct.pack(">Q", W_.seq)
                else:
                    explicit = R.fork("xn", d, ivc[d]).bytes(8)
            padbytes = R.fork("padb", d, ivc[d]).bytes(16) if ver == T.SSL30 else None
            ivc[d] += 1
            return T.record(ctype, ver, W_.seal(ctype, ver, pt, pad=pad, explicit=explicit, padbytes=padbytes))

        fin_len = 36 if ver == T.SSL30 else 12
        ccs = T.record(20, ver, b"\x01")
        if conn.get("resume"):
            f1 = [WRec("s", "hs", T.record(22, ver, sh)), WRec("s", "ccs", ccs),
                  WRec("s", "fin", seal("s", 22, T.hs_msg(20, blob("sfin", fin_len))))]
            flights.append({"c": [], "s": f1})
            keylog.append((1, "CLIENT_RANDOM", master))
            f2 = [WRec("c", "ccs", ccs), WRec("c", "fin", seal("c", 22, T.hs_msg(20, blob("cfin", fin_len))))]
            flights.append({"c": f2, "s": []})
        else:
            smsgs = [sh]
            for i, (mt, ln) in enumerate(conn.get("srv_msgs", [[11, 600], [14, 0]])):
                smsgs.append(T.hs_msg(mt, blob("smsg%d" % i, ln, shaped=bool(conn.get("shaped")) and i == 0)))
            recs = []
            for g in _partition(smsgs, conn.get("srv_group", [1] * 8)):
                recs.append(WRec("s", "hs", T.record(22, ver, b"".join(g))))
            flights.append({"c": [], "s": recs})
            keylog.append((1, "CLIENT_RANDOM", master))
            cmsgs = []
            for i, (mt, ln) in enumerate(conn.get("cli_msgs", [[16, 130]])):
                cmsgs.append(T.hs_msg(mt, blob("cmsg%d" % i, ln)))
            crecs = [WRec("c", "hs", T.record(22, ver, b"".join(g)))
                     for g in _partition(cmsgs, conn.get("cli_group", [1] * 8))]
            crecs.append(WRec("c", "ccs", ccs))
            crecs.append(WRec("c", "fin", seal("c", 22, T.hs_msg(20, blob("cfin", fin_len)))))
            flights.append({"c": crecs, "s": []})
            srecs = []
            if conn.get("nst"):
                srecs.append(WRec("s", "hs", T.record(22, ver, T.hs_msg(4, blob("nst", conn["nst"])))))
            srecs.append(WRec("s", "ccs", ccs))
            srecs.append(WRec("s", "fin", seal("s", 22, T.hs_msg(20, blob("sfin", fin_len)))))
            flights.append({"c": [], "s": srecs})

        def app_rec(d, rec):
            pt = R.fork("pt", rec["k"]).bytes(rec["n"])
            return WRec(d, "app", seal(d, 23, pt, pad=rec.get("pad", 0)), app=pt, k=rec["k"])

        def alert_rec(d):
            return WRec(d, "alert", seal(d, 21, b"\x01\x00"))

        def ticket_rec(i, n):
            # an encrypted HelloRequest in the middle of the connection (the client ignores it, no renegotiation follows)
            return WRec("s", "ehs", seal("s", 22, T.hs_msg(0, b"")))
    else:
        hl = 48 if s.prf == "sha384" else 32
        sec = {lab: R.fork("sec", lab).bytes(hl) for lab in ("chs", "shs", "cap", "sap", "exp")}
        hk = {"c": T.tls13_keys(s, sec["chs"]), "s": T.tls13_keys(s, sec["shs"])}
        ak = {"c": T.tls13_keys(s, sec["cap"]), "s": T.tls13_keys(s, sec["sap"])}
        keys.update({"chs_key": hk["c"][0].hex(), "chs_iv": hk["c"][1].hex(), "shs_key": hk["s"][0].hex(),
                     "shs_iv": hk["s"][1].hex(), "cap_key": ak["c"][0].hex(), "cap_iv": ak["c"][1].hex(),
                     "sap_key": ak["s"][0].hex(), "sap_iv": ak["s"][1].hex()})
        HW = {d: T.WriteState(ver, s, hk[d][0], iv=hk[d][1]) for d in "cs"}
        AW = {d: T.WriteState(ver, s, ak[d][0], iv=ak[d][1]) for d in "cs"}

        def seal13(Wd, ctype, pt, pad=0):
            pad = max(0, min(pad, 16384 - len(pt)))
            return T.record(23, 0x0303, Wd.seal(ctype, 0x0303, pt, pad=pad))

        ccs = T.record(20, 0x0303, b"\x01")
        hrr = conn.get("hrr")
        if hrr:
            # HelloRetryRequest: a ServerHello with the fixed random of RFC 8446 4.1.3 (supported_versions + the selected
            # group), then the client's second ClientHello (same random); compatibility-mode CCS records on either side
            HRR_RANDOM = bytes.fromhex("cf21ad74e59a6111be1d8c021e65b891c2a211167abb8c5e079e09e2c8a8339c")
            hx = [T.ext(0x002b, b"\x03\x04"), T.ext(0x0033, struct.pack(">H", 0x0017))]
            fh = [WRec("s", "hs", T.record(22, 0x0303, T.server_hello(T.TLS12, HRR_RANDOM, sid, conn["suite"], hx)))]
            if hrr.get("ccs_s"):
                fh.append(WRec("s", "ccs", ccs))
            flights.append({"c": [], "s": fh})
            f0 = []
            if hrr.get("ccs_c"):
                f0.append(WRec("c", "ccs", ccs))
            f0.append(WRec("c", "hs", ch_rec))
            flights.append({"c": f0, "s": []})
        f1 = [WRec("s", "hs", T.record(22, 0x0303, sh))]
        if conn.get("ccs_s", True) and not (hrr and hrr.get("ccs_s")):
            f1.append(WRec("s", "ccs", ccs))
        emsgs = []
        for i, (mt, ln) in enumerate(conn.get("enc_msgs", [[8, 10], [11, 700], [15, 100]])):
            emsgs.append(T.hs_msg(mt, blob("emsg%d" % i, ln)))
        emsgs.append(T.hs_msg(20, blob("sfin", hl)))
        hp = conn.get("hs_pad", 0)
        for gi, g in enumerate(_partition(emsgs, conn.get("enc_group", [1] * 8))):
            pad = R.fork("hspad", "s", gi).below(hp + 1) if hp else 0
            f1.append(WRec("s", "ehs", seal13(HW["s"], 22, b"".join(g), pad)))
        flights.append({"c": [], "s": f1})
        f2 = []
        if conn.get("ccs_c", True) and not (hrr and hrr.get("ccs_c")):
            f2.append(WRec("c", "ccs", ccs))
        cm = []
        for i, (mt, ln) in enumerate(conn.get("cli_enc_msgs", [])):
            cm.append(T.hs_msg(mt, blob("cemsg%d" % i, ln)))
        cm.append(T.hs_msg(20, blob("cfin", hl)))
        for gi, g in enumerate(_partition(cm, conn.get("cli_enc_group", [1] * 8))):
            pad = R.fork("hspad", "c", gi).below(hp + 1) if hp else 0
            f2.append(WRec("c", "ehs", seal13(HW["c"], 22, b"".join(g), pad)))
        flights.append({"c": f2, "s": []})
        labs = []
        if conn.get("hs_secrets", True):
            labs += [("CLIENT_HANDSHAKE_TRAFFIC_SECRET", sec["chs"]), ("SERVER_HANDSHAKE_TRAFFIC_SECRET", sec["shs"])]
        labs += [("CLIENT_TRAFFIC_SECRET_0", sec["cap"]), ("SERVER_TRAFFIC_SECRET_0", sec["sap"])]
        if conn.get("exporter", True):
            labs.append(("EXPORTER_SECRET", sec["exp"]))
        R.fork("labord").shuffle(labs)
        for lab, v in labs:
            keylog.append((1, lab, v))

        def app_rec(d, rec):
            pt = R.fork("pt", rec["k"]).bytes(rec["n"])
            return WRec(d, "app", seal13(AW[d], 23, pt, rec.get("pad", 0)), app=pt, k=rec["k"])

        def alert_rec(d):
            return WRec(d, "alert", seal13(AW[d], 21, b"\x01\x00"))

        def ticket_rec(i, n):
            return WRec("s", "ehs", seal13(AW["s"], 22, T.hs_msg(4, blob("tick%d" % i, n))))

    # application flights
    recs = conn.get("recs", [])
    tickets = {int(k): v for k, v in (conn.get("tickets") or {}).items()} if ver == T.TLS13 else \
        {int(k): 0 for k in (conn.get("hello_req") or [])}
    sizes = conn.get("fl") or [1] * len(recs)
    idx = 0
    merged_first = bool(conn.get("merge_first")) and len(flights) > 0
    for gi, g in enumerate(_partition(recs, sizes)):
        fl = {"c": [], "s": []}
        for rec in g:
            if idx in tickets and ticket_rec is not None:
                fl["s"].append(ticket_rec(idx, tickets[idx]))
            if conn.get("alert_mid") is not None and idx == conn["alert_mid"]:
                # half close: this side sends close_notify while the peer keeps sending (only used by differential
                # checks; data after an alert is outside the ground-truth oracles)
                fl[rec["d"]].append(alert_rec(rec["d"]))
            fl[rec["d"]].append(app_rec(rec["d"], rec))
            idx += 1
        if gi == 0 and conn.get("early_data_side"):
            # data sent before the peer's Finished: TLS 1.3 server 0.5-RTT data rides behind the server's handshake flight
            # (flight 1); TLS <= 1.2 False Start client data rides behind the client's Finished (flight 2, full handshake)
            side = conn["early_data_side"]
            tgt = 1 if (ver == T.TLS13 and side == "s") else (2 if (ver != T.TLS13 and side == "c" and
                                                                    not conn.get("resume")) else None)
            if tgt is not None and tgt < len(flights) and not any(w.kind == "app" for w in fl["c" if side == "s" else "s"][:0]):
                # only the leading run of that side's records may move ahead (order per direction is preserved)
                flights[tgt][side].extend(fl[side])
                fl[side] = []
                if not fl["c"] and not fl["s"]:
                    continue
        if gi == 0 and merged_first:
            # records of the side that sent the last handshake flight may ride in that flight
            last = flights[-1]
            side = "c" if last["c"] else "s"
            last[side].extend(fl[side])
            fl[side] = []
            if not fl["c"] and not fl["s"]:
                continue
        flights.append(fl)
    if idx in tickets and ticket_rec is not None:
        flights.append({"c": [], "s": [ticket_rec(idx, tickets[idx])]})
    if conn.get("close"):
        flights.append({"c": [alert_rec("c")], "s": []})
        flights.append({"c": [], "s": [alert_rec("s")]})
    keys["sh_record"] = None
    for fl in flights:
        for w in fl["s"]:
            if w.kind == "hs" and w.raw[5:6] == b"\x02":
                keys["sh_record"] = w.raw.hex()
                break
        if keys["sh_record"]:
            break
    return flights, keylog, keys
