import os
import sys


def main(argv):
    from . import harness
    if not argv:
        print("usage: check <Cxx> [--tier quick|thorough] | --replay <file> | selftest", file=sys.stderr)
        return 2
    if argv[0] == "--replay":
        return harness.replay(argv[1])
    if argv[0] == "selftest":
        from . import selftest
        return selftest.main(argv[1:])
    pid = argv[0]
    tier = os.environ.get("VERIF_TIER", "quick")
    count = None
    budget = None
    i = 1
    while i < len(argv):
        if argv[i] == "--tier":
            tier = argv[i + 1]
            i += 2
        elif argv[i] == "--count":
            count = int(argv[i + 1])
            i += 2
        elif argv[i] == "--budget":
            budget = int(argv[i + 1])
            i += 2
        else:
            print("unknown argument", argv[i], file=sys.stderr)
            return 2
    if tier not in ("quick", "thorough"):
        tier = "quick"
    seed = int(os.environ.get("VERIF_SEED", "0") or 0)
    return harness.run_batch(pid, tier, seed, budget_s=budget, count=count)


if __name__ == "__main__":
    sys.exit(main(sys.argv[1:]))
