"""simtle: deterministic simulation of the world around TLExport (peers, network, tap, key channel)."""
