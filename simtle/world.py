"""The simulated world: discrete-event simulation of N connections (TCP segments / UDP datagrams in flight),
the capture tap with its clock and storage, the key channel; expansion of a world spec into the artefacts handed to
the real TLExport plus the ground truth.  expand() is a pure function of the spec."""
import hashlib
import heapq
import json
import struct

from .rng import Rng, H64
from . import netbuild as NB
from . import container as CT
from . import tlsconn

FIN, SYN, RST, PSH, ACK = 1, 2, 4, 8, 16


def ep(d):
    return {"mac": bytes.fromhex(d["mac"]), "ip": bytes.fromhex(d["ip"]), "port": d["port"]}


class Sim:
    """discrete-event core: integer nanoseconds, (time, seq) total order"""

    def __init__(self):
        self.now = 0
        self.seq = 0
        self.q = []
        self.steps = 0

    def at(self, t, fn, *a):
        self.seq += 1
        heapq.heappush(self.q, (t, self.seq, fn, a))

    def after(self, d, fn, *a):
        self.at(self.now + d, fn, *a)

    def run(self, limit=5_000_000):
        while self.q:
            t, _, fn, a = heapq.heappop(self.q)
            self.now = t
            self.steps += 1
            if self.steps > limit:
                raise RuntimeError("simulation step limit")
            fn(*a)


class ConnProc:
    """one connection as a process in the simulation.  units[f][d] = list of Unit for flight f, direction d"""

    def __init__(self, world, conn, flights_units):
        self.w = world
        self.conn = conn
        self.fl = flights_units
        t = conn.get("t", {})
        self.start = t.get("start_us", 0) * 1000
        self.lat = {"c": t.get("lat_c_us", 300) * 1000, "s": t.get("lat_s_us", 300) * 1000}   # sender -> tap
        self.lat2 = {"c": t.get("lat2_c_us", 200) * 1000, "s": t.get("lat2_s_us", 200) * 1000}  # tap -> receiver
        self.gap = t.get("gap_ns", 12000)
        self.think = t.get("think_us", 500) * 1000
        self.rto = t.get("rto_us", 200000) * 1000
        self.f = -1
        self.pending = 0
        self.done_t = None

    def begin(self):
        self.w.sim.at(self.start, self.ctl_open)

    def ctl_open(self):
        if self.conn["proto"] in ("tls", "http") and self.conn.get("tcp", {}).get("ctl", True):
            # three-way handshake passes the tap
            s = self.w.sim
            self.w.tap_event(self, "c", {"ctl": "syn"})
            s.after(self.lat["c"] + self.lat2["c"] + self.lat["s"], self.w.tap_event, self, "s", {"ctl": "synack"})
            s.after(2 * (self.lat["c"] + self.lat2["c"]) + self.lat["s"] + self.lat2["s"], self.w.tap_event, self,
                    "c", {"ctl": "ack"})
            s.after(2 * (self.lat["c"] + self.lat2["c"]) + self.lat["s"] + self.lat2["s"] + 1000, self.next_flight)
        else:
            self.next_flight()

    def next_flight(self):
        self.f += 1
        if self.f >= len(self.fl):
            self.finish()
            return
        s = self.w.sim
        # TCP keep-alive probes of the idle period that just ended: one byte repeating the last byte the side has sent
        # (sequence number snd.nxt - 1), seen right before the next flight
        if self.f >= 1:
            for d in ("c", "s"):
                prev = [u for g in self.fl[:self.f] for u in g[d] if "hi" in u]
                if prev and (prev[-1].get("act") or [None])[0] == "keepalive" and prev[-1]["hi"] - prev[-1]["lo"] >= 1:
                    u = prev[-1]
                    self.w.tap_event(self, d, dict({k: v for k, v in u.items() if k != "act"}, lo=u["hi"] - 1, dup=True,
                                                   reseg=True, tail=True))
        self.w.flight_started(self, self.f)
        self.pending = 0
        n_units = 0
        for d in ("c", "s"):
            units = self.fl[self.f][d]
            for j, u in enumerate(units):
                n_units += 1
                t_send = j * self.gap + (self.gap // 2 if d == "s" else 0)
                act = u.get("act")
                arrivals = []   # (delay from now to tap, is_dup)
                base = t_send + self.lat[d]
                if act is None:
                    arrivals.append((base, False))
                elif act[0] == "delay":      # overtaken by act[1] later units of the same direction
                    arrivals.append((base + act[1] * self.gap + self.gap // 3, False))
                elif act[0] == "early":      # overtakes act[1] earlier units of the same direction (they took a slower path)
                    arrivals.append((max(self.lat[d] // 2, base - act[1] * self.gap - self.gap // 3), False))
                elif act[0] == "lost_before":  # lost before the tap, retransmitted after RTO -> seen once, late
                    arrivals.append((base + self.rto, False))
                elif act[0] == "dup":        # seen twice: second copy act[1] units later (fast retransmit)
                    arrivals.append((base, False))
                    arrivals.append((base + act[1] * self.gap + self.gap // 3, True))
                elif act[0] in ("dup_merge", "dup_half"):
                    # retransmission with other boundaries: this segment and the next one collapsed into one segment
                    # (dup_merge), or only the first half of the segment (dup_half); same first sequence number
                    arrivals.append((base, False))
                    arrivals.append((base + act[1] * self.gap + self.gap // 3, act[0]))
                elif act[0] == "dup_rto":    # lost after the tap: exact duplicate after RTO
                    arrivals.append((base, False))
                    arrivals.append((base + self.rto, True))
                elif act[0] == "dup_late":   # ACK lost: spurious retransmission well after the peer answered
                    arrivals.append((base, False))
                    self.w.late_dups.append((self, d, u, act[1]))
                elif act[0] == "keepalive":  # normal delivery; a probe follows when the connection has been idle
                    arrivals.append((base, False))
                elif act[0] == "lost":       # never seen by the tap, but received by the peer (tap-side loss)
                    pass
                else:
                    raise ValueError(act)
                last = base
                for dt, isdup in arrivals:
                    u2 = dict(u, dup=bool(isdup))
                    if isdup == "dup_merge" and "lo" in u and j + 1 < len(units) and "hi" in units[j + 1] and \
                            units[j + 1]["hi"] - u["lo"] <= 60000:
                        u2["hi"] = units[j + 1]["hi"]
                        u2["reseg"] = True
                    elif isdup == "dup_half" and "lo" in u and u["hi"] - u["lo"] >= 2:
                        u2["hi"] = u["lo"] + (u["hi"] - u["lo"]) // 2
                        u2["reseg"] = True
                    s.after(dt, self.w.tap_event, self, d, u2)
                    last = max(last, dt)
                self.pending += 1
                s.after(last + self.lat2[d], self.unit_delivered)
        if n_units == 0:
            s.after(1000, self.next_flight)

    def unit_delivered(self):
        self.pending -= 1
        if self.pending == 0:
            # pure ACK from the receiver side(s), then next flight
            if self.conn["proto"] in ("tls", "http") and self.conn.get("tcp", {}).get("ctl", True):
                for d in ("c", "s"):
                    if self.fl[self.f][d]:
                        other = "s" if d == "c" else "c"
                        self.w.sim.after(self.lat[other] // 2, self.w.tap_event, self, other, {"ctl": "pureack"})
            self.w.flight_done(self, self.f)
            self.w.sim.after(self.think, self.next_flight)

    def finish(self):
        self.done_t = self.w.sim.now
        if self.conn["proto"] in ("tls", "http") and self.conn.get("tcp", {}).get("ctl", True) and \
                self.conn.get("tcp", {}).get("fin", True):
            self.w.tap_event(self, "c", {"ctl": "fin"})
            self.w.sim.after(self.lat["c"] + self.lat2["c"] + self.lat["s"], self.w.tap_event, self, "s",
                             {"ctl": "finack"})
        for (p, d, u, k) in [x for x in self.w.late_dups if x[0] is self]:
            self.w.sim.after(self.rto, self.w.tap_event, self, d, dict(u, dup=True))
        self.w.conn_finished(self)


class World:
    def __init__(self, spec):
        self.spec = spec
        self.sim = Sim()
        self.taplog = []     # dict(t, conn, d, ...)
        self.late_dups = []
        self.keyevents = []  # (t, conn id, label, client_random hex, secret hex)
        self.procs = []
        self.built = {}
        self.sequential_chain = []

    # ---- callbacks from ConnProc
    def tap_event(self, proc, d, unit):
        e = dict(unit)
        e["t"] = self.sim.now
        e["conn"] = proc.conn["id"]
        e["d"] = d
        self.taplog.append(e)

    def flight_started(self, proc, f):
        if f == 0:
            b = self.built[proc.conn["id"]]
            for (after_f, label, secret) in b.get("keylog", []):
                if after_f == -1:
                    self.keyevents.append((self.sim.now, proc.conn["id"], label, b["keys"]["client_random"],
                                           secret.hex()))

    def flight_done(self, proc, f):
        b = self.built[proc.conn["id"]]
        for (after_f, label, secret) in b.get("keylog", []):
            if after_f == f:
                self.keyevents.append((self.sim.now, proc.conn["id"], label, b["keys"]["client_random"],
                                       secret.hex()))

    def conn_finished(self, proc):
        if self.spec.get("policy") == "sequential":
            i = self.procs.index(proc)
            if i + 1 < len(self.procs):
                nxt = self.procs[i + 1]
                nxt.start = self.sim.now + 1_000_000
                nxt.begin()


def tcp_units(conn, flights):
    """cut both directions' byte streams into segments; -> (units per flight/dir, streams, record ranges)"""
    tcp = conn.get("tcp", {})
    streams = {"c": b"", "s": b""}
    recranges = []   # (d, lo, hi, WRec, flight)
    fbounds = {"c": [], "s": []}
    for fi, fl in enumerate(flights):
        for d in ("c", "s"):
            lo0 = len(streams[d])
            for w in fl[d]:
                lo = len(streams[d])
                streams[d] += w.raw
                recranges.append((d, lo, len(streams[d]), w, fi))
            fbounds[d].append((lo0, len(streams[d])))
    units = [{"c": [], "s": []} for _ in flights]
    for d in ("c", "s"):
        n = len(streams[d])
        if tcp.get("cutmode", "record") == "record":
            cuts = set(hi for (dd, lo, hi, w, fi) in recranges if dd == d)
        else:
            cuts = set(c for c in tcp.get("cuts", {}).get(d, []) if 0 < c < n)
        for lo, hi in fbounds[d]:
            cuts.add(lo)
            cuts.add(hi)
        cuts.discard(0)
        cuts.add(n)
        cl = sorted(c for c in cuts if 0 < c <= n)
        # no segment carries more than 32 KiB (an IP datagram holds less than 64 KiB)
        bounded = []
        prev = 0
        for c in cl:
            while c - prev > 32768:
                prev += 32768
                bounded.append(prev)
            bounded.append(c)
            prev = c
        cl = bounded
        acts = {}
        for a in tcp.get("acts", {}).get(d, []):
            acts[a[0]] = a[1:]
        lo = 0
        segi = 0
        fi = 0
        for c in cl:
            while fi < len(flights) and not (fbounds[d][fi][0] <= lo < fbounds[d][fi][1]):
                fi += 1
            u = {"lo": lo, "hi": c, "seg": segi}
            pm = tcp.get("psh_mode", "all")
            if pm == "last":
                # PSH only on the segment that ends a write (here: the last segment of the direction's flight)
                u["psh"] = (fi < len(flights) and c == fbounds[d][fi][1])
            elif pm == "random":
                u["psh"] = bool(hashlib.sha256(b"psh%d:%d:%s" % (conn.get("sub", 0), segi, d.encode())).digest()[0] & 1)
            if segi in acts:
                u["act"] = acts[segi]
            units[fi][d].append(u)
            lo = c
            segi += 1
    return units, streams, recranges


_BUILD_CACHE = {}


def _cached_build(kind, conn, fn):
    """the peers' byte streams are a pure function of the connection spec; fault / variant loops re-expand the same
    connections many times, so the (crypto-heavy) construction is memoised per process (results are read-only)"""
    key = kind + hashlib.sha256(json.dumps(conn, sort_keys=True).encode()).hexdigest()
    hit = _BUILD_CACHE.get(key)
    if hit is None:
        if len(_BUILD_CACHE) > 96:
            _BUILD_CACHE.clear()
        hit = _BUILD_CACHE[key] = fn(conn)
    return hit


def expand(spec):
    """-> dict(capture, keylog, argv, truth, taplog, stats)"""
    w = World(spec)
    conns = spec["conns"]
    infos = {}
    for conn in conns:
        if conn["proto"] == "tls":
            flights, keylog, keys = _cached_build("tls", conn, tlsconn.build)
            units, streams, recranges = tcp_units(conn, flights)
            w.built[conn["id"]] = {"keylog": keylog, "keys": keys}
            infos[conn["id"]] = {"flights": flights, "streams": streams, "recranges": recranges, "keys": keys}
        elif conn["proto"] == "http":
            flights = plain_flights(conn)
            units, streams, recranges = tcp_units(conn, flights)
            w.built[conn["id"]] = {"keylog": [], "keys": {"client_random": ""}}
            infos[conn["id"]] = {"flights": flights, "streams": streams, "recranges": recranges, "keys": {}}
        elif conn["proto"] in ("quic", "udp"):
            from . import quicconn
            units, qinfo = _cached_build("udp", conn, quicconn.build_units)
            w.built[conn["id"]] = {"keylog": qinfo.get("keylog", []), "keys": qinfo.get("keys", {"client_random": ""})}
            infos[conn["id"]] = qinfo
        else:
            raise ValueError(conn["proto"])
        p = ConnProc(w, conn, units)
        w.procs.append(p)
    if spec.get("policy") == "sequential":
        if w.procs:
            w.procs[0].begin()
    else:
        for p in w.procs:
            p.begin()
    w.sim.run()
    taplog = w.taplog   # already in (t, seq) order since appended as executed
    # ---- tap: clock, frames
    tap = spec.get("tap", {})
    epoch = tap.get("epoch_us", 1_600_000_000_000_000)
    res = tap.get("res_us", 1)
    steps = sorted(tap.get("steps", []))   # [at_event_index, delta_us]
    byid = {c["id"]: c for c in conns}
    used_ts = {}
    off = 0
    si = 0
    ident = {}
    frames = []
    for i, e in enumerate(taplog):
        while si < len(steps) and steps[si][0] <= i:
            off += steps[si][1]
            si += 1
        ts = epoch + e["t"] // 1000 + off
        ts -= ts % res
        conn = byid[e["conn"]]
        if conn["proto"] in ("quic", "udp") and conn.get("unique_ts", True):
            # QUIC datagrams are told apart by their capture timestamps (C02): unique per connection, or - mode
            # "per_direction" - only within a direction (a coarse tap clock may stamp a request and its answer alike)
            ukey = (e["conn"], e["d"]) if conn.get("unique_ts") == "per_direction" else e["conn"]
            u = used_ts.setdefault(ukey, set())
            while ts in u:
                ts += res
            u.add(ts)
        e["ts"] = ts
        e["i"] = i
    stats = {"sim_events": w.sim.steps, "sim_time_ns": w.sim.now}
    return finish_expand(spec, w, infos, taplog, stats)


def plain_flights(conn):
    """non-TLS TCP conversation (e.g. HTTP on a watched port)"""
    from .tlsconn import WRec
    R = Rng(conn["sub"], "http")
    fl = []
    if conn.get("raw"):
        for d, hx in conn["raw"]:
            f = {"c": [], "s": []}
            b = bytes.fromhex(hx)
            pos = 0
            while pos < len(b):      # one WRec per TLS record so that the truth knows the record boundaries
                ln = 5 + int.from_bytes(b[pos + 3:pos + 5], "big") if pos + 5 <= len(b) else len(b) - pos
                f[d].append(WRec(d, "plain", b[pos:pos + ln]))
                pos += ln
            fl.append(f)
        return fl
    for i, (d, n) in enumerate(conn.get("msgs", [["c", 80], ["s", 300]])):
        if conn.get("text", True):
            body = (b"GET /%d HTTP/1.1\r\nHost: x\r\n\r\n" % i) if d == "c" else b"HTTP/1.1 200 OK\r\nContent-Length: 5\r\n\r\nhello"
            body = (body * (n // len(body) + 1))[:max(n, 1)]
        else:
            body = R.fork("b", i).bytes(max(n, 1))
        f = {"c": [], "s": []}
        f[d].append(WRec(d, "plain", body))
        fl.append(f)
    return fl


def build_frame(conn, info, e, mod=None):
    """tap entry -> link-layer frame bytes.  mod: optional payload/checksum fault"""
    v6 = conn["v6"]
    cl = conn["c_mig"] if (e.get("mig") and conn.get("c_mig")) else conn["c"]   # client address after NAT rebinding
    src = ep(cl if e["d"] == "c" else conn["s"])
    dst = ep(conn["s"] if e["d"] == "c" else cl)
    if conn.get("src_per_dgram") and e["d"] == "c" and "dg" in e:
        # a burst of unrelated datagrams from many different hosts and ports (scan, DDoS reflection, ...)
        ipb = bytearray(src["ip"])
        ipb[-2] = (ipb[-2] + e["dg"] // 200 + 1) & 0xFF
        ipb[-1] = (e["dg"] * 37 + 1) % 251 + 1
        src = dict(src, ip=bytes(ipb), port=1024 + (e["dg"] * 7919) % 60000)
    pad_to = 60 if conn.get("pad_eth", True) else 0
    bad = None
    if mod and mod.get("badcsum"):
        x = mod["badcsum"]
        bad = lambda c: (c ^ x) & 0xFFFF  # noqa: E731
    if conn["proto"] in ("tls", "http"):
        tcp = conn.get("tcp", {})
        isn = {"c": tcp.get("isn_c", 1000), "s": tcp.get("isn_s", 5000)}
        od = "s" if e["d"] == "c" else "c"
        streams = info["streams"]
        opts = b""
        if tcp.get("opts"):
            opts = b"\x01\x01\x08\x0a" + struct.pack(">II", (e["t"] // 1000000) & 0xFFFFFFFF, 0)
        if "ctl" in e:
            k = e["ctl"]
            if k == "syn":
                return NB.frame_tcp(src, dst, v6, isn["c"], 0, SYN, b"", ident=e["i"], pad_to=pad_to,
                                    options=b"\x02\x04\x05\xb4" if tcp.get("opts") else b"")
            if k == "synack":
                return NB.frame_tcp(src, dst, v6, isn["s"], isn["c"] + 1, SYN | ACK, b"", ident=e["i"], pad_to=pad_to,
                                    options=b"\x02\x04\x05\xb4" if tcp.get("opts") else b"")
            if k == "ack":
                return NB.frame_tcp(src, dst, v6, isn["c"] + 1, isn["s"] + 1, ACK, b"", ident=e["i"], pad_to=pad_to,
                                    options=opts)
            sent = e.get("sent", {"c": 0, "s": 0})
            if k == "pureack":
                return NB.frame_tcp(src, dst, v6, isn[e["d"]] + 1 + sent[e["d"]], isn[od] + 1 + sent[od], ACK, b"",
                                    ident=e["i"], pad_to=pad_to, options=opts)
            if k in ("fin", "finack"):
                return NB.frame_tcp(src, dst, v6, isn[e["d"]] + 1 + len(streams[e["d"]]),
                                    isn[od] + 1 + len(streams[od]) + (1 if k == "finack" else 0), FIN | ACK, b"",
                                    ident=e["i"], pad_to=pad_to, options=opts)
            raise ValueError(k)
        payload = streams[e["d"]][e["lo"]:e["hi"]]
        orig_payload = payload
        if mod and "payload" in mod:
            payload = mod["payload"](payload)
        flags = ACK | (PSH if e.get("psh", True) else 0)
        ackno = isn[od] + 1 + e.get("peer_sent", 0)
        window = 65535
        if e.get("steer"):
            # the sender chose the window for the ORIGINAL segment; damage on the wire does not change it
            window = steer_window(v6, src, dst, isn[e["d"]] + 1 + e["lo"], ackno, flags, orig_payload, opts, e["steer"])
            e["steered"] = window is not None
            window = 65535 if window is None else window
        fr = NB.frame_tcp(src, dst, v6, isn[e["d"]] + 1 + e["lo"], ackno, flags, payload, ident=e["i"], pad_to=pad_to,
                          options=opts, bad_csum=bad, window=window)
        if mod and mod.get("post"):
            fr = mod["post"](fr)
        return fr
    else:
        payload = info["dgrams"][e["dg"]]
        if mod and "payload" in mod:
            payload = mod["payload"](payload)
        if conn.get("udp_nocsum") and not v6 and e["d"] in conn["udp_nocsum"] and bad is None:
            # the sender generates no UDP checksum (legal over IPv4, RFC 768): the field is transmitted as zero
            bad = lambda c: 0
            e["udp_nocsum"] = True
        fr = NB.frame_udp(src, dst, v6, payload, ident=e["i"], pad_to=pad_to, bad_csum=bad)
        if not mod:
            off = 14 + (40 if v6 else 20) + 6
            if fr[off:off + 2] == b"\xff\xff":
                e["udp_ffff"] = True
        if mod and mod.get("post"):
            fr = mod["post"](fr)
        return fr


def steer_window(v6, src, dst, seq, ack, flags, payload, opts, target):
    """choose the (free) TCP window field so that the one's-complement arithmetic of this segment's checksum passes
    through a chosen boundary.  target = ["fold", v]: value after the FIRST fold of the 32-bit sum == v (e.g. 0x10000);
    ["final", v]: completely folded sum == v (0xffff -> checksum field 0x0000); ["raw_multiple", 0xffff]"""
    seg0 = NB.tcp_segment(v6, src["ip"], dst["ip"], src["port"], dst["port"], seq, ack, flags, payload, window=0,
                          options=opts)
    seg0 = seg0[:16] + b"\x00\x00" + seg0[18:]
    s0 = NB.raw_sum16(NB.pseudo(v6, src["ip"], dst["ip"], 6, len(seg0)) + seg0)
    kind, v = target
    for w in range(0, 65536):
        s = s0 + w
        if kind == "fold":
            if (s >> 16) + (s & 0xFFFF) == v:
                return w
        elif kind == "final":
            f = s
            while f >> 16:
                f = (f >> 16) + (f & 0xFFFF)
            if f == v:
                return w
        elif kind == "raw_multiple":
            if s % v == 0:
                return w
    return None


def _flip_fn(off, bit):
    def f(p):
        if not p:
            return p
        o = off % len(p)
        return p[:o] + bytes([p[o] ^ (1 << (bit & 7))]) + p[o + 1:]
    return f


def _overwrite_fn(off, n, seed):
    def f(p):
        if not p:
            return p
        o = off % len(p)
        r = Rng(seed, "ow").bytes(n)
        return (p[:o] + r + p[o + n:])[:len(p)]
    return f


def _shorten_fn(n):
    def f(p):
        keep = max(1, len(p) - n)
        return p[:keep]
    return f


def finish_expand(spec, w, infos, taplog, stats):
    conns = spec["conns"]
    byid = {c["id"]: c for c in conns}
    # bookkeeping of bytes sent per direction for ACK numbers of control packets
    sent = {c["id"]: {"c": 0, "s": 0} for c in conns}
    for e in taplog:
        cid = e["conn"]
        if byid[cid]["proto"] in ("tls", "http"):
            if "ctl" in e:
                e["sent"] = dict(sent[cid])
            else:
                od = "s" if e["d"] == "c" else "c"
                e["peer_sent"] = sent[cid][od]
                sent[cid][e["d"]] = max(sent[cid][e["d"]], e["hi"])
    for st in spec.get("steer", []):
        if 0 <= st[0] < len(taplog) and "lo" in taplog[st[0]]:
            taplog[st[0]]["steer"] = st[1]
    # ---- faults on the tap log
    faults = spec.get("faults", [])
    mods = {}
    drop = set()
    dups = {}
    cut_hi = None
    cut_lo = None
    fired = {}
    for f in faults:
        k = f["k"]
        i = f.get("i")
        if i is not None and not (0 <= i < len(taplog)):
            continue
        fired[k] = fired.get(k, 0) + 1
        if k == "drop":
            drop.add(i)
        elif k == "cut":
            cut_hi = i if cut_hi is None else min(cut_hi, i)
        elif k == "late":
            cut_lo = i if cut_lo is None else max(cut_lo, i)
        elif k == "dupframe":
            dups[i] = dups.get(i, 0) + 1
        elif k == "flip":
            m = mods.setdefault(i, {})
            m["payload"] = _flip_fn(f["off"], f["bit"])
            if not f.get("fix", True):
                m["keepsum"] = True
        elif k == "overwrite":
            m = mods.setdefault(i, {})
            m["payload"] = _overwrite_fn(f["off"], f["n"], f.get("seed", 0))
        elif k == "shorten":
            m = mods.setdefault(i, {})
            m["payload"] = _shorten_fn(f["n"])
        elif k == "badcsum":
            mods.setdefault(i, {})["badcsum"] = f.get("xor", 1) or 1
        else:
            raise ValueError(k)
    items = []
    frames_meta = []
    for i, e in enumerate(taplog):
        if i in drop:
            continue
        if cut_hi is not None and i >= cut_hi:
            continue
        if cut_lo is not None and i < cut_lo:
            continue
        conn = byid[e["conn"]]
        mod = mods.get(i)
        if mod and mod.get("keepsum"):
            # corrupt payload but leave the checksum of the ORIGINAL packet: build the original, then patch bytes
            good = build_frame(conn, infos[e["conn"]], e, None)
            badp = build_frame(conn, infos[e["conn"]], e, {"payload": mod["payload"]})
            fr = _graft_checksum(conn, good, badp)
        else:
            fr = build_frame(conn, infos[e["conn"]], e, mod)
        for _ in range(1 + dups.get(i, 0)):
            items.append(("pkt", e["ts"], fr))
            frames_meta.append(i)
    # ---- key channel
    kc = spec.get("keychan", {"mode": "file"})
    lines = []
    for (t, cid, label, cr, sec) in w.keyevents:
        lines.append((t, cid, "%s %s %s" % (label, cr, sec)))
    drop_lines = set(tuple(x) for x in kc.get("drop", []))  # (conn id, label)
    repl = {tuple(x[:2]): x[2] for x in kc.get("replace", [])}
    outlines = []
    for (t, cid, ln) in lines:
        if kc.get("only_conn") is not None and cid != kc["only_conn"]:
            continue
        lab = ln.split(" ")[0]
        if (cid, lab) in drop_lines:
            continue
        if (cid, lab) in repl:
            p = ln.split(" ")
            n = len(p[2]) // 2
            p[2] = Rng(repl[(cid, lab)], "wrongsecret").bytes(n).hex()
            ln = " ".join(p)
        outlines.append((t, cid, ln))
    if kc.get("early_lines"):
        # a TLS 1.3 client that offered early data to a TLS <= 1.2 server leaves a CLIENT_EARLY_TRAFFIC_SECRET line with
        # the same client random next to the CLIENT_RANDOM line
        ol2 = []
        for (t, cid, ln) in outlines:
            ol2.append((t, cid, ln))
            pp = ln.split(" ")
            if pp[0] == "CLIENT_RANDOM":
                ol2.append((t, cid, "CLIENT_EARLY_TRAFFIC_SECRET %s %s" % (pp[1], Rng(kc["early_lines"], "early", pp[1]).bytes(32).hex())))
        outlines = ol2
    keylog_text, items = apply_keychan(kc, outlines, items, frames_meta, taplog)
    cont = dict(spec.get("container", {}))
    if cont.get("tsresol") is not None:
        cont["tsresol"] = tuple(cont["tsresol"])
    if cont.get("blocks_seed") is not None and cont.get("fmt", "pcapng") == "pcapng":
        RB = Rng(cont["blocks_seed"], "blocks")
        with_blocks = []
        for it in items:
            while RB.chance(20):
                with_blocks.append(("blk", RB.choice(["nrb", "isb", "custom", "custom_nocopy", "unknown", "idb2"]), RB.bits(30)))
            with_blocks.append(it)
        with_blocks.append(("blk", "isb", RB.bits(30)))
        items_out = with_blocks
    else:
        items_out = items
    capture = CT.write_capture(items_out, cont)
    argv = cli_argv(spec)
    truth = make_truth(spec, infos, taplog, frames_meta, set(drop), cut_lo, cut_hi, dups)
    stats["fault_fired"] = fired
    stats["frames"] = len(frames_meta)
    return {"capture": capture, "keylog": keylog_text, "argv": argv, "truth": truth, "taplog": taplog,
            "stats": stats, "items": items, "keylines": [l for (_, _, l) in outlines]}


def _graft_checksum(conn, good, bad):
    """take the corrupted frame but with the transport checksum field of the good one"""
    v6 = conn["v6"]
    l4 = 14 + (40 if v6 else 20)
    off = l4 + (16 if conn["proto"] in ("tls", "http") else 6)
    return bad[:off] + good[off:off + 2] + bad[off + 2:]


def apply_keychan(kc, outlines, items, frames_meta, taplog):
    """-> (keylog file bytes or None, items with DSBs inserted)"""
    mode = kc.get("mode", "file")
    text_lines = [l for (_, _, l) in outlines]
    if "perm_seed" in kc:
        Rng(kc["perm_seed"], "perm").shuffle(text_lines)
    nl = "\r\n" if kc.get("crlf") else "\n"
    deco = kc.get("deco")
    if deco:
        R = Rng(deco, "deco")
        out = []
        for l in text_lines:
            if R.chance(30):
                out.append("# comment %d" % R.below(1000))
            if R.chance(20):
                out.append("")
            if R.chance(20):
                out.append("CLIENT_RANDOM %s %s" % (R.bytes(32).hex(), R.bytes(48).hex()))
            out.append(l)
            if R.chance(20):
                out.append(l)
        text_lines = out
    if kc.get("upper"):
        text_lines = [" ".join([p[0]] + [x.upper() for x in p[1:]]) if len(p) == 3 else l
                      for l, p in ((l, l.split(" ")) for l in text_lines)]
    if kc.get("straddle") and text_lines:
        # a long key log (a browser session of hours): unrelated lines in front, sized so that one line of the capture's
        # connections lies across a power-of-two byte offset (readers that work block-wise must not tear it)
        R = Rng(kc["straddle"], "straddle")
        j = R.below(len(text_lines))
        block = R.choice([65536, 65536, 65536, 8192, 4096, 131072])
        before = sum(len(l) + len(nl) for l in text_lines[:j])
        k = R.range(1, max(1, len(text_lines[j]) - 1))
        need = block - k - before
        while need < 0:
            need += block
        filler = []
        while need > 400:
            l = "CLIENT_RANDOM %s %s" % (R.bytes(32).hex(), R.bytes(48).hex())
            filler.append(l)
            need -= len(l) + len(nl)
        if need >= len(nl) + 1:
            filler.append("#" + "f" * (need - 1 - len(nl)))
        text_lines = filler + text_lines
    final_nl = "" if kc.get("no_final_nl") else nl
    text = (nl.join(text_lines) + (final_nl if text_lines else "")).encode()
    if mode == "file":
        return text, items
    if kc.get("file_part"):
        # the key-log file holds only part of the lines (the DSBs hold all of them)
        keep = [l for i, l in enumerate(text_lines) if (i % kc["file_part"]) == 0]
        text = (nl.join(keep) + (final_nl if keep else "")).encode()
    if kc.get("dsb_per_conn"):
        # merged captures (mergecap of per-host captures with embedded secrets): one secrets block per connection,
        # directly in front of that connection's first captured packet
        first = {}
        first_s = {}
        for j, i in enumerate(frames_meta):
            first.setdefault(taplog[i]["conn"], j)
        if kc["dsb_per_conn"] == "after_first_flight":
            # the tool that wrote the capture logged the secrets as soon as the TLS stack produced them: the block sits
            # behind the client's first flight (ClientHello), in front of the first packet of the server
            for j, i in enumerate(frames_meta):
                e = taplog[i]
                if e["d"] == "s" and "ctl" not in e and first.get(e["conn"], 10 ** 9) <= j and e["conn"] not in first_s:
                    first_s[e["conn"]] = j
            # (TLS only: for QUIC the secrets must be known when the packets are read - the property requires the
            # block in front of the packets there)
            quic_ids = set(e2["conn"] for e2 in taplog if "dg" in e2)
            first = {cid: (pos if cid in quic_ids else first_s.get(cid, pos)) for cid, pos in first.items()}
        groups = {}
        for (_, cid, l) in outlines:
            groups.setdefault(cid, []).append(l)
        new = list(items)
        for cid, pos in sorted(first.items(), key=lambda x: -x[1]):
            if cid in groups:
                new.insert(pos, ("dsb", (nl.join(groups[cid]) + nl).encode()))
        return (None if mode == "dsb" else text), new
    # DSB placement: kc["dsb"] = list of [position in items (0 = before all packets), share index] ;
    # lines are dealt to the shares round-robin unless kc["split"] gives explicit counts
    places = kc.get("dsb", [[0, 0]])
    nshare = len(places)
    shares = [[] for _ in range(nshare)]
    if kc.get("split"):
        it = iter(text_lines)
        for si, cnt in enumerate(kc["split"]):
            for _ in range(cnt):
                try:
                    shares[min(si, nshare - 1)].append(next(it))
                except StopIteration:
                    break
        for l in it:
            shares[-1].append(l)
    else:
        for i, l in enumerate(text_lines):
            shares[i % nshare].append(l)
    new = list(items)
    ins = sorted(((pos, si) for si, (pos, _) in enumerate(places)), reverse=True)
    for pos, si in ins:
        if not shares[si]:
            continue
        t = (nl.join(shares[si]) + final_nl).encode()
        new.insert(min(pos, len(new)), ("dsb", t))
    for pos, txt in kc.get("extra_dsb", []):
        # additional secrets blocks holding only comment / blank / unrelated text
        new.insert(min(pos, len(new)), ("dsb", txt.encode()))
    if mode == "dsb":
        return None, new
    return text, new   # "both"


def cli_argv(spec):
    cli = spec.get("cli", {})
    a = []
    if cli.get("p"):
        a += ["-p"] + [str(x) for x in cli["p"]]
    if "m" in cli and cli["m"] is not None:
        a += ["-m"] + list(cli["m"])
    if cli.get("c"):
        a += ["-c"]
    if cli.get("a"):
        a += ["-a"]
    if cli.get("g"):
        a += ["-g"]
    if cli.get("d") is not None:
        a += ["-d"] + ([cli["d"]] if cli["d"] else [])
    if cli.get("f"):
        a += ["-f"] + list(cli["f"])
    if spec.get("container", {}).get("fmt") == "pcap":
        a += ["-l"]
    return a


def make_truth(spec, infos, taplog, frames_meta, drop, cut_lo, cut_hi, dups):
    conns = spec["conns"]
    truth = {"conns": []}
    kept = set(frames_meta)
    for conn in conns:
        cid = conn["id"]
        info = infos[cid]
        t = {"id": cid, "proto": conn["proto"], "v6": conn["v6"], "c": conn["c"], "s": conn["s"]}
        if conn["proto"] in ("tls", "http"):
            app = {"c": b"", "s": b""}
            recs = []
            for (d, lo, hi, wr, fi) in info["recranges"]:
                r = {"d": d, "lo": lo, "hi": hi, "kind": wr.kind, "k": wr.k, "fl": fi}
                if wr.kind == "app":
                    r["app_lo"] = len(app[d])
                    app[d] += wr.app
                    r["app_hi"] = len(app[d])
                r["raw"] = wr.raw
                recs.append(r)
            t["app"] = app
            t["records"] = recs
            fr = []
            for e in taplog:
                if e["conn"] == cid and "ctl" not in e:
                    fr.append({"i": e["i"], "d": e["d"], "lo": e["lo"], "hi": e["hi"], "ts": e["ts"],
                               "dup": bool(e.get("dup")), "kept": e["i"] in kept, "tail": bool(e.get("tail"))})
            t["frames"] = fr
            t["keys"] = info["keys"]
            t["streams"] = info["streams"]
        else:
            t.update(info.get("truth", {}))
            fr = []
            expected = []
            dm = info.get("dmeta")
            largest = {}
            undecodable = 0
            for e in taplog:
                if e["conn"] == cid:
                    fr.append({"i": e["i"], "d": e["d"], "dg": e["dg"], "ts": e["ts"], "dup": bool(e.get("dup")),
                               "kept": e["i"] in kept})
                    if dm is None or e["i"] not in kept:
                        continue
                    # A receiver can only decrypt a packet whose truncated packet number still decodes to the right
                    # value on arrival (RFC 9000 A.3); reordering beyond the window the sender encoded for makes a packet
                    # undecryptable for everyone, so its data is not part of what can be exported.
                    payload = b""
                    for pk in dm[e["dg"]]["pk"]:
                        if pk["kind"] in ("retry", "vneg"):
                            continue
                        key = (e["d"], pk["space"])
                        L = largest.get(key, int((spec.get("pn_preset") or {}).get(str(conn["c"]["port"]), {}).get(e["d"], {}).get(pk["space"], 0)) if pk["space"] == "RTT_1" else 0)
                        bits = 8 * pk["pnlen"]
                        from .quicref import decode_pn
                        if decode_pn(L, pk["pn"] & ((1 << bits) - 1), bits) != pk["pn"]:
                            undecodable += 1
                            fr[-1]["undecodable"] = True
                            continue
                        largest[key] = max(L, pk["pn"])
                        payload += b"".join(bytes.fromhex(m["data"]) for m in pk["frames"] if m["n"] == "StreamFrame")
                    if payload:
                        for _ in range(1 + dups.get(e["i"], 0)):
                            expected.append({"d": e["d"], "payload": payload, "ts": e["ts"], "dg": e["dg"], "i": e["i"]})
            t["undecodable_packets"] = undecodable
            t["frames"] = fr
            if dm is not None:
                t["expected"] = expected
                t["dmeta"] = dm
            t["keys"] = info.get("keys", {})
        truth["conns"].append(t)
    return truth


def interleave_signature(taplog):
    h = hashlib.sha256()
    for e in taplog:
        h.update(b"%d%s" % (e["conn"], e["d"].encode()))
    return h.hexdigest()[:16]


def artefact_digest(ex):
    h = hashlib.sha256()
    h.update(ex["capture"])
    h.update(b"|")
    h.update(ex["keylog"] if ex["keylog"] is not None else b"<none>")
    h.update(json.dumps(ex["argv"]).encode())
    for c in ex["truth"]["conns"]:
        if "app" in c:
            h.update(c["app"]["c"])
            h.update(c["app"]["s"])
    for e in ex["taplog"]:
        h.update(b"%d,%d,%s;" % (e["t"], e["conn"], e["d"].encode()))
    return h.hexdigest()
