"""Independent strict observer of TLExport's output: pcapng reader, frame parser, TCP reassembler.

struct only (no dpkt, no scapy, no tlexport).  Every structural rule that fails raises Malformed(rule, detail);
the rule name is the violation class of C06.
"""
import struct
from fractions import Fraction

from .netbuild import csum16, pseudo


class Malformed(Exception):
    def __init__(self, rule, detail=""):
        super().__init__("%s: %s" % (rule, detail))
        self.rule = rule
        self.detail = detail


def read_pcapng(data: bytes):
    """-> list of (ts_us:int, ts_exact:bool, frame:bytes); strict framing"""
    pkts = []
    pos = 0
    n = len(data)
    e = None
    ifaces = []
    if n == 0:
        raise Malformed("file-empty", "zero bytes")
    first = True
    while pos < n:
        if n - pos < 12:
            raise Malformed("block-truncated", "at %d: %d trailing bytes" % (pos, n - pos))
        if first or data[pos:pos + 4] == b"\x0a\x0d\x0d\x0a":
            if data[pos:pos + 4] != b"\x0a\x0d\x0d\x0a":
                raise Malformed("shb-missing", "first block type %s" % data[pos:pos + 4].hex())
            bom = data[pos + 8:pos + 12]
            if bom == b"\x4d\x3c\x2b\x1a":
                e = "<"
            elif bom == b"\x1a\x2b\x3c\x4d":
                e = ">"
            else:
                raise Malformed("shb-bom", bom.hex())
            ifaces = []
        btype, blen = struct.unpack_from(e + "II", data, pos)
        if blen < 12 or blen % 4 != 0:
            raise Malformed("block-length", "type %#x len %d at %d" % (btype, blen, pos))
        if pos + blen > n:
            raise Malformed("block-truncated", "type %#x len %d at %d of %d" % (btype, blen, pos, n))
        (blen2,) = struct.unpack_from(e + "I", data, pos + blen - 4)
        if blen2 != blen:
            raise Malformed("block-trailer", "type %#x len %d != trailer %d" % (btype, blen, blen2))
        body = data[pos + 8:pos + blen - 4]
        if btype == 0x0A0D0D0A:
            if len(body) < 16:
                raise Malformed("shb-short")
            _, vmaj, vmin, _sl = struct.unpack_from(e + "IHHq", body, 0)
            if vmaj != 1:
                raise Malformed("shb-version", "%d.%d" % (vmaj, vmin))
            _options(e, body[16:], "shb")
        elif btype == 1:
            if len(body) < 8:
                raise Malformed("idb-short")
            link, _res, snap = struct.unpack_from(e + "HHI", body, 0)
            opts = _options(e, body[8:], "idb")
            unit = Fraction(1, 1000000)
            offset = 0
            for code, val in opts:
                if code == 9:
                    if len(val) != 1:
                        raise Malformed("idb-tsresol-len")
                    k = val[0] & 0x7F
                    unit = Fraction(1, 2 ** k) if val[0] & 0x80 else Fraction(1, 10 ** k)
                elif code == 14:
                    if len(val) != 8:
                        raise Malformed("idb-tsoffset-len")
                    (offset,) = struct.unpack(e + "q", val)
            ifaces.append((link, snap, unit, offset))
        elif btype == 6:
            if len(body) < 20:
                raise Malformed("epb-short")
            iid, th, tl, cap, orig = struct.unpack_from(e + "IIIII", body, 0)
            if iid >= len(ifaces):
                raise Malformed("epb-no-idb", "interface %d of %d" % (iid, len(ifaces)))
            if cap > orig:
                raise Malformed("epb-caplen-gt-len", "%d > %d" % (cap, orig))
            padded = (cap + 3) & ~3
            if 20 + padded > len(body):
                raise Malformed("epb-caplen-gt-block", "%d in %d" % (cap, len(body)))
            link, snap, unit, offset = ifaces[iid]
            if link != 1:
                raise Malformed("idb-linktype", str(link))
            if snap and cap > snap:
                raise Malformed("epb-caplen-gt-snaplen", "%d > %d" % (cap, snap))
            if cap != orig:
                raise Malformed("epb-truncated-packet", "%d of %d" % (cap, orig))
            _options(e, body[20 + padded:], "epb")
            t = (offset + ((th << 32) | tl) * unit) * 1000000
            ts_us = t.numerator // t.denominator
            pkts.append((ts_us, t.denominator == 1, body[20:20 + cap]))
        elif btype in (2, 3):
            raise Malformed("obsolete-packet-block", hex(btype))
        # other block types are skipped after framing validation
        pos += blen
        first = False
    return pkts


def _options(e, buf, where):
    opts = []
    pos = 0
    while pos < len(buf):
        if len(buf) - pos < 4:
            raise Malformed(where + "-option-truncated")
        code, ln = struct.unpack_from(e + "HH", buf, pos)
        pos += 4
        if code == 0:
            if ln != 0:
                raise Malformed(where + "-endofopt-len")
            if pos != len(buf):
                raise Malformed(where + "-data-after-endofopt")
            return opts
        padded = (ln + 3) & ~3
        if pos + padded > len(buf):
            raise Malformed(where + "-option-overrun")
        opts.append((code, buf[pos:pos + ln]))
        pos += padded
    return opts


def parse_frame(fr: bytes, idx=None):
    """strict Ethernet/IPv4|IPv6/TCP|UDP parse -> dict"""
    w = "pkt %s" % idx
    if len(fr) < 14:
        raise Malformed("frame-short", "%s: %d bytes" % (w, len(fr)))
    p = {"eth_dst": fr[0:6], "eth_src": fr[6:12]}
    (et,) = struct.unpack_from(">H", fr, 12)
    if et == 0x0800:
        if len(fr) < 34:
            raise Malformed("ipv4-short", w)
        vihl, _tos, tot, _id, ff, _ttl, proto, _ck = struct.unpack_from(">BBHHHBBH", fr, 14)
        if vihl >> 4 != 4:
            raise Malformed("ipv4-version", w)
        ihl = (vihl & 15) * 4
        if ihl < 20:
            raise Malformed("ipv4-ihl", w)
        if tot < ihl or 14 + tot > len(fr):
            raise Malformed("ipv4-total-length", "%s: tot %d frame %d" % (w, tot, len(fr)))
        if 14 + tot != len(fr) and any(fr[14 + tot:]):
            raise Malformed("ipv4-trailing-garbage", w)
        if csum16(fr[14:14 + ihl]) != 0:
            raise Malformed("ipv4-header-checksum", w)
        if ff & 0x3FFF:
            raise Malformed("ipv4-fragment", w)
        p["v6"] = False
        p["ip_src"] = fr[26:30]
        p["ip_dst"] = fr[30:34]
        l4 = fr[14 + ihl:14 + tot]
    elif et == 0x86DD:
        if len(fr) < 54:
            raise Malformed("ipv6-short", w)
        first, plen, nxt, _hl = struct.unpack_from(">IHBB", fr, 14)
        if first >> 28 != 6:
            raise Malformed("ipv6-version", w)
        if 54 + plen > len(fr):
            raise Malformed("ipv6-payload-length", "%s: plen %d frame %d" % (w, plen, len(fr)))
        if 54 + plen != len(fr) and any(fr[54 + plen:]):
            raise Malformed("ipv6-trailing-garbage", w)
        p["v6"] = True
        p["ip_src"] = fr[22:38]
        p["ip_dst"] = fr[38:54]
        proto = nxt
        l4 = fr[54:54 + plen]
    else:
        raise Malformed("ethertype", "%s: %#06x" % (w, et))
    p["proto"] = proto
    if proto == 6:
        if len(l4) < 20:
            raise Malformed("tcp-short", w)
        sp, dp, seq, ack, offb, flags, win, ck, urg = struct.unpack_from(">HHIIBBHHH", l4, 0)
        off = (offb >> 4) * 4
        if off < 20 or off > len(l4):
            raise Malformed("tcp-data-offset", w)
        if csum16(pseudo(p["v6"], p["ip_src"], p["ip_dst"], 6, len(l4)) + l4) != 0:
            raise Malformed("tcp-checksum", w)
        p.update(sport=sp, dport=dp, seq=seq, ack=ack, flags=flags, payload=l4[off:])
    elif proto == 17:
        if len(l4) < 8:
            raise Malformed("udp-short", w)
        sp, dp, ln, ck = struct.unpack_from(">HHHH", l4, 0)
        if ln != len(l4):
            raise Malformed("udp-length", "%s: field %d actual %d" % (w, ln, len(l4)))
        if ck == 0:
            if p["v6"]:
                raise Malformed("udp6-zero-checksum", w)
        else:
            if csum16(pseudo(p["v6"], p["ip_src"], p["ip_dst"], 17, len(l4)) + l4) != 0:
                raise Malformed("udp-checksum", w)
        p.update(sport=sp, dport=dp, payload=l4[8:])
    else:
        raise Malformed("ip-protocol", "%s: %d" % (w, proto))
    return p


FIN, SYN, RST, PSH, ACK = 1, 2, 4, 8, 16


class TcpConv:
    def __init__(self, key):
        self.key = key
        self.state = 0
        self.a = None  # initiator (ip, port)
        self.b = None
        self.nxt = {}
        self.stream = {}
        self.segs = []  # (src_ep, payload, ts_us, pkt)
        self.hs_ts = []
        self.pkts = []
        self.macs = {}


def reassemble(parsed, errors=None):
    """parsed: list of dicts (parse_frame + ts_us) in file order.
    -> (tcp_convs: dict key->TcpConv, udp_flows: dict key->list of pkt).
    Structural problems are appended to `errors` (list of Malformed) and processing continues leniently
    (payload is still collected in file order), so that oracles other than C06 can keep working."""
    if errors is None:
        errors = []
    tcp = {}
    udp = {}

    def bad(rule, detail):
        errors.append(Malformed(rule, detail))

    for i, p in enumerate(parsed):
        s = (p["ip_src"], p["sport"])
        d = (p["ip_dst"], p["dport"])
        key = (p["proto"], p["v6"], tuple(sorted([s, d])))
        if p["proto"] == 17:
            udp.setdefault(key, []).append(p)
            continue
        c = tcp.get(key)
        if c is None:
            c = tcp[key] = TcpConv(key)
        c.pkts.append(p)
        fl = p["flags"] & 0x3F
        for e_, m_ in ((s, p["eth_src"]), (d, p["eth_dst"])):
            if e_ in c.macs and c.macs[e_] != m_:
                bad("tcp-mac-inconsistent", "pkt %d" % i)
            c.macs.setdefault(e_, m_)
        if c.state < 3:
            ok = False
            if c.state == 0 and fl == SYN and not p["payload"]:
                c.a, c.b = s, d
                c.isn_a = p["seq"]
                c.state = 1
                c.hs_ts.append(p["ts_us"])
                ok = True
            elif c.state == 1 and fl == (SYN | ACK) and s == c.b and not p["payload"]:
                if p["ack"] != (c.isn_a + 1) & 0xFFFFFFFF:
                    bad("tcp-synack-ack", "pkt %d" % i)
                c.isn_b = p["seq"]
                c.state = 2
                c.hs_ts.append(p["ts_us"])
                ok = True
            elif c.state == 2 and fl == ACK and s == c.a and not p["payload"]:
                if p["seq"] != (c.isn_a + 1) & 0xFFFFFFFF or p["ack"] != (c.isn_b + 1) & 0xFFFFFFFF:
                    bad("tcp-handshake-ack-numbers", "pkt %d" % i)
                c.state = 3
                c.hs_ts.append(p["ts_us"])
                c.nxt = {c.a: (c.isn_a + 1) & 0xFFFFFFFF, c.b: (c.isn_b + 1) & 0xFFFFFFFF}
                c.stream = {c.a: bytearray(), c.b: bytearray()}
                ok = True
            if ok:
                continue
            bad("tcp-conv-handshake", "pkt %d: state %d flags %#x payload %d" % (i, c.state, fl, len(p["payload"])))
            # lenient continuation: treat as established with unknown sequence state
            if c.a is None:
                c.a, c.b = s, d
            c.state = 4
            c.nxt = {}
            c.stream = {c.a: bytearray(), c.b: bytearray()}
        if fl & (SYN | RST):
            bad("tcp-unexpected-syn-rst", "pkt %d" % i)
            continue
        if not fl & ACK:
            bad("tcp-no-ack-flag", "pkt %d" % i)
        other = c.b if s == c.a else c.a
        if c.state == 3:
            if p["seq"] != c.nxt[s]:
                kind = "tcp-seq-gap" if ((p["seq"] - c.nxt[s]) & 0xFFFFFFFF) < 0x80000000 else "tcp-seq-overlap"
                bad(kind, "pkt %d seq %d expected %d" % (i, p["seq"], c.nxt[s]))
                c.nxt[s] = p["seq"]
            if p["ack"] != c.nxt[other]:
                bad("tcp-ack-inconsistent", "pkt %d ack %d expected %d" % (i, p["ack"], c.nxt[other]))
        if p["payload"] or fl & PSH:
            c.segs.append((s, bytes(p["payload"]), p["ts_us"], p))
            c.stream.setdefault(s, bytearray()).extend(p["payload"])
            if c.state == 3:
                c.nxt[s] = (c.nxt[s] + len(p["payload"])) & 0xFFFFFFFF
        if fl & FIN and c.state == 3:
            c.nxt[s] = (c.nxt[s] + 1) & 0xFFFFFFFF
    for key, c in tcp.items():
        if c.state < 3:
            bad("tcp-handshake-incomplete", "state %d" % c.state)
            if c.a is None and c.pkts:
                p = c.pkts[0]
                c.a, c.b = (p["ip_src"], p["sport"]), (p["ip_dst"], p["dport"])
            c.stream.setdefault(c.a, bytearray())
            c.stream.setdefault(c.b, bytearray())
    return tcp, udp


def observe(data: bytes, errors=None):
    """pipeline -> (parsed_packets, tcp_convs, udp_flows).  With errors=None any structural problem raises
    Malformed (strict); with a list, problems are collected and processing continues as far as possible."""
    strict = errors is None
    errs = [] if strict else errors
    raw = read_pcapng(data)      # framing problems always raise: nothing can be read past them
    parsed = []
    for i, (ts_us, exact, fr) in enumerate(raw):
        try:
            p = parse_frame(fr, i)
        except Malformed as m:
            if strict:
                raise
            errs.append(m)
            continue
        p["ts_us"] = ts_us
        p["ts_exact"] = exact
        p["idx"] = i
        p["raw"] = fr
        parsed.append(p)
    tcp, udp = reassemble(parsed, errs)
    if strict and errs:
        raise errs[0]
    return parsed, tcp, udp
