#!/usr/bin/env python3
"""Regenerates MANIFEST.json from the table below (kept in one place so it stays valid and current)."""
import json
import os

HERE = os.path.dirname(os.path.abspath(__file__))

CLAIMED = {
    # id: (level, technique, text, note, design_ref)
    "C01": ("exploration", "deterministic simulation: seeded search over simulated TLS peers x histories x segmentations, ground-truth oracle",
            "Seeded search over simulated worlds: reference TLS peers (all 5 versions, all 207 table suites valid for the version, "
            "handshake shapes, record histories, segmentations) produce captures with known plaintext; the real TLExport run must export "
            "exactly the bytes each endpoint sent. Sampling, not proof.",
            "Trusted: reference TLS model (validated on 30 real captures), strict output reader/reassembler, fork-server == CLI.",
            "DESIGN.md section 5 C01"),
}

NOT_YET = {}

NA = {
    "C14": "pure stateless function of a 2-byte code point over a finite domain: no schedule, clock, I/O, fault or second party for a simulator to control; exhaustive enumeration against a registry copy is a different technique (DESIGN.md section 5 C14)",
    "C17": "parse_frames is a stateless function from one decrypted byte string to a list; the property quantifies over byte strings only, which calls for input generation/enumeration, not schedules or faults (DESIGN.md section 5 C17); the simulated QUIC packets' frames are still cross-checked under C02",
}


def main():
    props = [json.loads(l)["id"] for l in open(os.path.join(HERE, "properties.jsonl"))]
    checks = []
    na = []
    for pid in props:
        if pid in CLAIMED and os.path.exists(os.path.join(HERE, "simtle", "props", pid + ".py")):
            level, tech, text, note, ref = CLAIMED[pid]
            checks.append({
                "property_id": pid,
                "quick_cmd": "timeout 900 ./check %s --tier quick" % pid,
                "thorough_cmd": "timeout 7200 ./check %s --tier thorough" % pid,
                "evidence_file": "/verif/evidence/%s.json" % pid,
                "replay_cmd_template": "./check --replay {path}",
                "engine": "simtle",
                "level_claimed": {"category": level, "text": text, "design_ref": ref},
                "level_note": note,
                "technique": tech,
            })
        elif pid in NA:
            na.append({"property_id": pid, "reason": NA[pid]})
        else:
            na.append({"property_id": pid, "reason": "check under construction in this round (not a not-applicable judgement); see DESIGN.md section 5"})
    man = {
        "version": 1,
        "setup_cmd": "/venv/bin/python -c \"import cryptography, dpkt, scapy; print('deps ok')\" && /venv/bin/python -m compileall -q simtle selftest >/dev/null; true",
        "hooks": {
            "guard": "TLEXPORT_VERIF",
            "enable": "no hooks in /repo: all seams are harness-side (files, argv, env, fork server, attribute wrappers installed in the forked child); TLEXPORT_VERIF is reserved and unused",
            "baseline_off_cmd": "cd /repo && /venv/bin/python -m pytest -ra -q -p no:cacheprovider --timeout=900 --continue-on-collection-errors",
            "source_commits": [],
            "add_only": True,
        },
        "engines": [{"name": "simtle", "path": "/verif/simtle", "serves_properties": [c["property_id"] for c in checks],
                     "kind_free_text": "deterministic simulation with fault injection: seeded discrete-event world (TLS/QUIC peers, TCP/UDP paths, capture tap, clock, container, key channel) around the real TLExport run in a fork server"}],
        "checks": checks,
        "not_applicable": na,
        "notes": "VERIF_SEED selects the batch; VERIF_TIER/--tier selects quick or thorough; VERIF_BUDGET_S bounds the thorough search per property (default 900 s); VERIF_WORKERS the lane count (default 16); VERIF_REPO the tree under test (default /repo).",
    }
    with open(os.path.join(HERE, "MANIFEST.json"), "w") as f:
        json.dump(man, f, indent=1)
    print("claimed:", [c["property_id"] for c in checks])
    print("unclaimed:", [n["property_id"] for n in na])


if __name__ == "__main__":
    main()
