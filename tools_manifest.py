#!/usr/bin/env python3
"""Regenerates MANIFEST.json from the table below (kept in one place so it stays valid and current)."""
import json
import os

HERE = os.path.dirname(os.path.abspath(__file__))

TRUST = ("Trusted: reference TLS/QUIC peer models (validated on 30 real captures / RFC 9001 vectors), the strict output "
         "reader/reassembler, fork-server run == CLI run (sampled in C18). Sampling, not proof.")

CLAIMED = {
    # id: (level, technique, text, note, design_ref)
    "C01": ("exploration", "deterministic simulation: seeded search over simulated TLS peers x histories x segmentations, ground-truth oracle",
            "Seeded search over simulated worlds: reference TLS peers (all 5 versions, all 207 table suites valid for the version, "
            "handshake shapes, record histories, segmentations) produce captures with known plaintext; the real TLExport run must export "
            "exactly the bytes each endpoint sent.", TRUST, "DESIGN.md section 5 C01"),
    "C02": ("exploration", "deterministic simulation: seeded search over simulated QUIC peers (packet protection, frames, key updates, UDP loss/dup/reorder), ground-truth oracle",
            "Seeded search over simulated QUIC v1 connections (4 suites, CID lengths 0..20, PN lengths, coalescing, frame mixes, CRYPTO "
            "ordering, Retry, 0-RTT, NEW_CONNECTION_ID, key updates) over a simulated UDP path; the exported non-empty datagrams must equal, "
            "in capture order, the STREAM data of each captured datagram.", TRUST, "DESIGN.md section 5 C02"),
    "C03": ("fault_enumeration", "deterministic simulation with fault injection: single-fault enumeration (packet loss, capture start/stop, key-line subsets, wrong secrets, bit flips, foreign traffic) against a fault-free baseline",
            "For each simulated world with a victim flow and healthy bystanders, single faults from the property's list are enumerated "
            "(sampled in quick, exhaustive per capture in thorough); the run must not fail, bystander flows must be byte-identical to the "
            "fault-free export, and for information-removing faults the victim exports at most a prefix of its true plaintext.", TRUST,
            "DESIGN.md section 5 C03"),
    "C04": ("exploration", "deterministic simulation: seeded scheduler interleaves N simulated connections; mixed export == union of solo exports",
            "The simulated scheduler merges the packet sequences of 2-6 connections with colliding endpoints under several interleaving "
            "policies; every flow of the mixed export must equal (bytes and timestamps) the export of that connection alone.", TRUST,
            "DESIGN.md section 5 C04"),
    "C05": ("exploration", "deterministic simulation with fault injection: simulated TCP path (cut points, duplicates, bounded reordering, ISN wrap) vs canonical delivery; record-handler probe; exhaustive cut-set sweep for a short stream",
            "One byte stream per direction delivered under many simulated network plans; exports must equal the canonical delivery's and "
            "the record handler must see exactly the stream's records with the overlapping packets; all cut sets of a short 2-record "
            "stream are swept exhaustively.", TRUST + " One residual is a recorded known finding (KF-1).", "DESIGN.md section 5 C05"),
    "C06": ("exploration", "deterministic simulation with fault injection: mixed healthy/faulty/foreign/empty worlds x option combinations, output judged by an independent strict pcapng reader, frame parser and TCP reassembler",
            "Every output of a mixed battery (healthy, faulty, foreign-only and empty worlds, random option combinations, n x k sweep) "
            "must pass an independent strict reader, frame parser (lengths, checksums) and TCP reassembler (handshake, gap-free "
            "sequence space, consistent ACKs) and the per-record re-splitting bound.", TRUST, "DESIGN.md section 5 C06"),
    "C07": ("exploration", "deterministic simulation: provenance oracle from the simulated tap log (who sent what when, incl. duplicates, reordering, clock steps)",
            "Every exported packet is traced back to the simulated connection and to the tap frames of the record/datagram it carries: "
            "MAC/IP/port/direction and timestamp must come from there; the tap clock makes steps and ties.", TRUST,
            "DESIGN.md section 5 C07"),
    "C08": ("fault_enumeration", "deterministic simulation with fault injection: capture process crash at every packet position, prefix monotonicity oracle",
            "The simulated capture process is stopped after packet k for every k (sampled stride for long captures in quick); each prefix "
            "export must be a per-flow prefix of the full export and of the ground truth, and never retract earlier data.", TRUST,
            "DESIGN.md section 5 C08"),
    "C09": ("exploration", "deterministic simulation: key-channel seam varied (ordering, batching into DSBs, decoration) with byte-identical-output oracle",
            "The simulated key channel delivers the same secrets in ~10 ways (file permutations/decorations/CRLF/upper-case, DSBs before "
            "or between packets, DSB only without -s from another cwd, file+DSB); output bytes must equal the baseline's.", TRUST,
            "DESIGN.md section 5 C09"),
    "C10": ("exploration", "deterministic simulation: configuration swarm (-p / -m) over simulated worlds with servers on listed and unlisted ports",
            "Worlds with TLS/QUIC servers on default, -p-selected and unlisted ports under random -p/-m options; a flow must be exported "
            "iff its server port is selected, with the documented server port and unchanged client port.", TRUST,
            "DESIGN.md section 5 C10"),
    "C11": ("fault_enumeration", "deterministic simulation with fault injection: wire corruption of chosen packet subsets with checksum arithmetic steered through fold boundaries; -c export vs filtered capture",
            "Subsets of packets are corrupted (checksum field or payload bit); export with -c must be byte-identical to the export "
            "without -c of the capture minus those packets; free header fields steer sums through carry/fold boundaries.", TRUST,
            "DESIGN.md section 5 C11"),
    "C12": ("exploration", "deterministic simulation: tap storage seam varied (pcapng LE/BE, resolutions, offsets, extra blocks, legacy pcap) with byte-identical-output oracle",
            "The same simulated frames and timestamps written in ~12 container variants must give byte-identical exports.", TRUST,
            "DESIGN.md section 5 C12"),
    "C13": ("exploration", "deterministic simulation: differential run with/without -a over simulated TLS and QUIC worlds",
            "Each simulated world is exported with and without -a; application-data packets must be a subsequence, Hello records verbatim, "
            "QUIC stream data preserved in order.", TRUST, "DESIGN.md section 5 C13"),
    "C15": ("exploration", "deterministic simulation: reference model checked operation by operation via harness-side probes at every key installation event",
            "Key material the real code installs (TLS incl. MAC keys and TLS 1.3 key switch; QUIC initial/handshake/0-RTT/1-RTT/HP/key "
            "update generations) is compared with the simulated peers' independently derived keys for every (version, suite) pair.",
            TRUST, "DESIGN.md section 5 C15"),
    "C16": ("exploration", "deterministic simulation with fault injection: simulated UDP path loses/duplicates/reorders QUIC datagrams, senders skip packet numbers at window boundaries, randomised initial state; probe vs RFC 9000 A.3 reference",
            "Packet-number histories under loss, duplication, reordering and sender skips (and randomised initial largest values up to "
            "2^62) are replayed; every reconstruction the real code performs must equal RFC 9000 A.3 applied to the same largest/"
            "truncated/length, per space and direction.", TRUST, "DESIGN.md section 5 C16"),
    "C18": ("exploration", "deterministic simulation: the same world exported under different hash seeds, environments, working directories, in-process repetition and a real CLI subprocess",
            "Same simulated world exported by interpreters with PYTHONHASHSEED 0-3, other cwd/env, twice in one process, after another "
            "world, and by `python -m tlexport.main`; sha256 of outputs must be equal.", TRUST, "DESIGN.md section 5 C18"),
}

NOT_YET = {}

NA = {
    "C14": "pure stateless function of a 2-byte code point over a finite domain: no schedule, clock, I/O, fault or second party for a simulator to control; exhaustive enumeration against a registry copy is a different technique (DESIGN.md section 5 C14)",
    "C17": "parse_frames is a stateless function from one decrypted byte string to a list; the property quantifies over byte strings only, which calls for input generation/enumeration, not schedules or faults (DESIGN.md section 5 C17); the simulated QUIC packets' frames are still cross-checked under C02",
}


def main():
    props = [json.loads(l)["id"] for l in open(os.path.join(HERE, "properties.jsonl"))]
    checks = []
    na = []
    for pid in props:
        if pid in CLAIMED and os.path.exists(os.path.join(HERE, "simtle", "props", pid + ".py")):
            level, tech, text, note, ref = CLAIMED[pid]
            checks.append({
                "property_id": pid,
                "quick_cmd": "timeout 900 ./check %s --tier quick" % pid,
                "thorough_cmd": "timeout 7200 ./check %s --tier thorough" % pid,
                "evidence_file": "/verif/evidence/%s.json" % pid,
                "replay_cmd_template": "./check --replay {path}",
                "engine": "simtle",
                "level_claimed": {"category": level, "text": text, "design_ref": ref},
                "level_note": note,
                "technique": tech,
            })
        elif pid in NA:
            na.append({"property_id": pid, "reason": NA[pid]})
        else:
            na.append({"property_id": pid, "reason": "check under construction in this round (not a not-applicable judgement); see DESIGN.md section 5"})
    man = {
        "version": 1,
        "setup_cmd": "/venv/bin/python -c \"import cryptography, dpkt, scapy; print('deps ok')\" && /venv/bin/python -m compileall -q simtle selftest >/dev/null; true",
        "hooks": {
            "guard": "TLEXPORT_VERIF",
            "enable": "no hooks in /repo: all seams are harness-side (files, argv, env, fork server, attribute wrappers installed in the forked child); TLEXPORT_VERIF is reserved and unused",
            "baseline_off_cmd": "cd /repo && /venv/bin/python -m pytest -ra -q -p no:cacheprovider --timeout=900 --continue-on-collection-errors",
            "source_commits": [],
            "add_only": True,
        },
        "engines": [{"name": "simtle", "path": "/verif/simtle", "serves_properties": [c["property_id"] for c in checks],
                     "kind_free_text": "deterministic simulation with fault injection: seeded discrete-event world (TLS/QUIC peers, TCP/UDP paths, capture tap, clock, container, key channel) around the real TLExport run in a fork server"}],
        "checks": checks,
        "not_applicable": na,
        "notes": "VERIF_SEED selects the batch; VERIF_TIER/--tier selects quick or thorough; VERIF_BUDGET_S bounds the thorough search per property (default 900 s); VERIF_WORKERS the lane count (default 16); VERIF_REPO the tree under test (default /repo); VERIF_HUGE=1 adds the opt-in 65536-frame conversation to the thorough tier of C06 (about five CPU minutes per export).",
    }
    with open(os.path.join(HERE, "MANIFEST.json"), "w") as f:
        json.dump(man, f, indent=1)
    print("claimed:", [c["property_id"] for c in checks])
    print("unclaimed:", [n["property_id"] for n in na])


if __name__ == "__main__":
    main()
