#!/usr/bin/env python3
"""(Re)generates selftest/mutants/*.patch from the replacement table below against the current /repo tree.
Each mutant compiles and passes the repo's 60 tests; `./check selftest sensitivity --with-tests` verifies both."""
import difflib
import os
import sys

REPO = os.environ.get("VERIF_REPO", "/repo")
OUT = os.path.join(os.path.dirname(os.path.abspath(__file__)), "mutants")

M = [
    ("seq_not_advanced_chacha12", "C01", "tlexport/decryptor.py",
     "        decrypted = cipher.decrypt(bytes(nonce), bytes(record.binary), associated_data)\n\n        if isserver:\n            self.server_seq += 1\n",
     "        decrypted = cipher.decrypt(bytes(nonce), bytes(record.binary), associated_data)\n\n        if isserver:\n            self.server_seq += 0\n"),
    ("cbc_residue_from_plaintext", "C01", "tlexport/decryptor.py",
     "            self.last_block_server = ciphertext[-index:]", "            self.last_block_server = decrypted[-index:]"),
    ("tls13_update_keys_no_seq_reset", "C01", "tlexport/decryptor.py",
     "            self.client_iv = self.client_application_iv\n            self.client_seq = 0", "            self.client_iv = self.client_application_iv"),
    ("etm_inverted_implicit_iv", "C01", "tlexport/decryptor.py",
     "        logging.info(f\"decrypted without padding: {plaintext}\")\n\n        if not self.encrypt_then_mac:",
     "        logging.info(f\"decrypted without padding: {plaintext}\")\n\n        if self.encrypt_then_mac:"),
    ("duplicate_suppression_off_server", "C05", "tlexport/session.py",
     "            if sequence in self.seen_packets_server:\n                return\n", "            if sequence in self.seen_packets_server:\n                pass\n"),
    ("contiguity_test_off", "C05,C03", "tlexport/session.py",
     "            if packet.seq != next_seq:\n                return None\n", "            if packet.seq != next_seq and False:\n                return None\n"),
    ("seq_wrap_not_masked", "C05", "tlexport/session.py",
     "            next_seq = (next_seq + len(packet.tls_data)) & 0xFFFFFFFF\n        return next_seq", "            next_seq = (next_seq + len(packet.tls_data))\n        return next_seq"),
    ("resplit_one_segment_too_many", "C06", "tlexport/output_builder.py",
     "    def build_client_packet(self, decrypted, ts):\n        record_len = len(decrypted)\n        packet_count = len(ts)\n        part_len = floor(record_len / packet_count)\n        parts = []\n        last_len = 0\n        for i in range(0, packet_count - 1):",
     "    def build_client_packet(self, decrypted, ts):\n        record_len = len(decrypted)\n        packet_count = len(ts)\n        part_len = floor(record_len / (packet_count + 1))\n        parts = []\n        last_len = 0\n        ts = ts + ts[-1:]\n        for i in range(0, packet_count):"),
    ("ack_number_stale_client", "C06", "tlexport/output_builder.py",
     "                    dport=self.server_port, sport=self.client_port, flags='PA', seq=self.client_seq,\n                    ack=self.server_seq) / Raw(parts[i])\n                self.client_seq += len(parts[i])\n\n                packet_ack = Ether(src=self.server_mac_addr, dst=self.client_mac_addr) / IP(",
     "                    dport=self.server_port, sport=self.client_port, flags='PA', seq=self.client_seq,\n                    ack=max(1, self.server_seq - 1)) / Raw(parts[i])\n                self.client_seq += len(parts[i])\n\n                packet_ack = Ether(src=self.server_mac_addr, dst=self.client_mac_addr) / IP("),
    ("macs_swapped_client_ipv6", "C07", "tlexport/output_builder.py",
     "                packet = Ether(src=self.client_mac_addr, dst=self.server_mac_addr) / IPv6(src=self.client_ip,\n                                                                                        dst=self.server_ip) / TCP(\n                    dport=self.server_port, sport=self.client_port, flags='PA', seq=self.client_seq,",
     "                packet = Ether(src=self.server_mac_addr, dst=self.client_mac_addr) / IPv6(src=self.client_ip,\n                                                                                        dst=self.server_ip) / TCP(\n                    dport=self.server_port, sport=self.client_port, flags='PA', seq=self.client_seq,"),
    ("timestamp_of_first_record_for_server", "C07", "tlexport/output_builder.py",
     "            if record[2]:\n                self.build_server_packet(decrypted, ts)",
     "            if record[2]:\n                self.build_server_packet(decrypted, [self.ts_zero] * len(ts))"),
    ("handshake_time_slightly_earlier", "C07", "tlexport/output_builder.py",
     "                self.ts_zero = record[1].metadata[0].timestamp", "                self.ts_zero = record[1].metadata[0].timestamp - 0.001"),
    ("only_first_dsb_used", "C09", "tlexport/main.py",
     "            # decryption secrets block: key log text, not a packet (it must not be parsed as an Ethernet frame)\n            keylog.extend(",
     "            # decryption secrets block: key log text, not a packet (it must not be parsed as an Ethernet frame)\n            if len(keylog) > 0:\n                continue\n            keylog.extend("),
    ("portmap_trailing_comma", "C10", "tlexport/main.py",
     "        i = i.replace(\",\", \"\") # if somebody is using a \",\" as seperator\n", ""),
    ("bare_m_maps_to_8081", "C10", "tlexport/main.py",
     "            setattr(namespace, self.dest, [\"443:8080\"])", "            setattr(namespace, self.dest, [\"443:8081\"])"),
    ("checksum_odd_length_padding", "C11", "tlexport/checksums.py",
     "    if len(checksum_arr) % 2 != 0:\n        checksum_arr.extend(b'\\x00')\n", "    if len(checksum_arr) % 2 != 0:\n        checksum_arr[-1:] = b'\\x00' + checksum_arr[-1:]\n"),
    ("checksum_fold_off_by_one", "C11", "tlexport/checksums.py",
     "    while checksum > 0xFFFF:", "    while checksum > 0x10000:"),
    ("tsresol_power_of_two_as_ten", "C12", "tlexport/dpkt_dsb.py",
     "                pow_num = 2 if opt_val & 0b10000000 else 10", "                pow_num = 10"),
    ("tsoffset_always_little_endian", "C12", "tlexport/dpkt_dsb.py",
     "                self._tsoffset = dpng.struct_unpack('<q' if self.__le else '>q', opt.data)[0]", "                self._tsoffset = dpng.struct_unpack('<q', opt.data)[0]"),
    ("metadata_drops_tls13_appdata_after_ticket", "C13", "tlexport/session.py",
     "            if subrecord_type == b'\\x16':\n                self.handle_decrypted_tls_13_handshake_record(plaintext[:-1], isserver)\n                return",
     "            if subrecord_type == b'\\x16':\n                self.handle_decrypted_tls_13_handshake_record(plaintext[:-1], isserver)\n                if self.exp_meta:\n                    self.application_traffic = [t for t in self.application_traffic if t[1].record_type != 0x17 or t[2] != isserver]\n                return"),
    ("mac_keys_swapped_tls12", "C15", "tlexport/key_derivator.py",
     "    key_block = prf_tls_12(master_secret, client_random, server_random, b'key expansion',\n                           key_block_length + 2 * iv_length, mac_function)\n\n    keys = {\n        \"client_write_MAC_secret\": key_block[0: mac_length],\n        \"server_write_MAC_secret\": key_block[mac_length: mac_length * 2],",
     "    key_block = prf_tls_12(master_secret, client_random, server_random, b'key expansion',\n                           key_block_length + 2 * iv_length, mac_function)\n\n    keys = {\n        \"server_write_MAC_secret\": key_block[0: mac_length],\n        \"client_write_MAC_secret\": key_block[mac_length: mac_length * 2],"),
    ("quic_ku_secrets_crossed", "C15,C02", "tlexport/quic/quic_key_generation.py",
     "    server_n = decryptor_n.keys[4]\n    client_n = decryptor_n.keys[5]", "    server_n = decryptor_n.keys[5]\n    client_n = decryptor_n.keys[4]"),
    ("pn_window_boundary_strict", "C16", "tlexport/quic/quic_session.py",
     "        if candidate_pkn <= expected_pkn - pkn_hwindow and", "        if candidate_pkn < expected_pkn - pkn_hwindow and"),
    ("pn_largest_stored_in_wrong_direction", "C16,C02", "tlexport/quic/quic_session.py",
     "        spaces = self.packet_number_server if quic_packet.isserver else self.packet_number_client\n        space = PACKET_TYPE_MAP[quic_packet.packet_type]\n        spaces[space] = max(",
     "        spaces = self.packet_number_server if (quic_packet.isserver and quic_packet.packet_type != QuicPacketType.HANDSHAKE) else self.packet_number_client\n        space = PACKET_TYPE_MAP[quic_packet.packet_type]\n        spaces[space] = max("),
    ("cid_set_iteration_reintroduced", "C18,C02", "tlexport/quic/quic_session.py",
     "        for cid in sorted(candidates, key=len, reverse=True):\n            if len(cid) > 0 and cid == packet.tls_data[1:1 + len(cid)]:",
     "        for cid in set(self.client_cids) | set(self.server_cids):\n            if cid == packet.tls_data[1:1 + len(cid)]:"),
    ("retry_id_matches_short_headers_again", "C02", "tlexport/quic/quic_session.py",
     "            candidates = self.server_cids - self.handshake_only_cids\n", "            candidates = self.server_cids\n"),
    ("migrated_packet_first_matching_session_wins", "C04", "tlexport/main.py",
     "                    if longest_match is None or len(cid) > len(longest_match[1]):\n", "                    if longest_match is None:\n"),
    ("module_state_sessions_not_cleared", "C18", "tlexport/main.py",
     "    keylog.clear()\n    sessions.clear()\n", "    keylog.clear()\n"),
    ("quic_short_header_mask_bits", "C02", "tlexport/quic/quic_dissector.py",
     "byte_and(bytes([mask[0]]), bytes.fromhex(\"1f\")))", "byte_and(bytes([mask[0]]), bytes.fromhex(\"0f\")))"),
    ("quic_crypto_reassembly_iterates_live_list", "C02", "tlexport/quic/quic_tls_parser.py",
     "            for crypto_frame in list(self.client_frame_buffer[frame.src_packet.packet_type]):", "            for crypto_frame in self.client_frame_buffer[frame.src_packet.packet_type]:"),
    ("session_match_ignores_client_port", "C04", "tlexport/session.py",
     "        elif (packet.ip_src == self.client_ip and packet.sport == self.client_port\n              and packet.ip_dst == self.server_ip and packet.dport == self.server_port):\n            return True\n        return False\n\n    def handle_packet",
     "        elif (packet.ip_src == self.client_ip\n              and packet.ip_dst == self.server_ip and packet.dport == self.server_port):\n            return True\n        return False\n\n    def handle_packet"),
    ("session_match_ignores_server_ip", "C04", "tlexport/session.py",
     "        if (packet.ip_src == self.server_ip and packet.sport == self.server_port\n                and packet.ip_dst == self.client_ip and packet.dport == self.client_port):\n            return True\n        elif",
     "        if (packet.sport == self.server_port\n                and packet.ip_dst == self.client_ip and packet.dport == self.client_port):\n            return True\n        elif"),
    ("malformed_record_aborts_again", "C03", "tlexport/session.py",
     "        try:\n            self.handle_tls_record(record, isserver)\n        except Exception as e:\n            logging.warning(f\"Could not handle malformed TLS record: {e}\")",
     "        try:\n            self.handle_tls_record(record, isserver)\n        except ValueError as e:\n            logging.warning(f\"Could not handle malformed TLS record: {e}\")"),
]


def main():
    os.makedirs(OUT, exist_ok=True)
    for f in os.listdir(OUT):
        if f.endswith(".patch"):
            os.remove(os.path.join(OUT, f))
    bad = 0
    for name, props, path, old, new in M:
        src = open(os.path.join(REPO, path)).read()
        if src.count(old) != 1:
            print("SKIP %s: pattern occurs %d times in %s" % (name, src.count(old), path))
            bad += 1
            continue
        dst = src.replace(old, new)
        diff = "".join(difflib.unified_diff(src.splitlines(True), dst.splitlines(True), "a/" + path, "b/" + path))
        with open(os.path.join(OUT, name + ".patch"), "w") as f:
            f.write("# mutant: %s\n# property: %s\n" % (name, props))
            f.write(diff)
    print("%d mutants written, %d skipped" % (len(M) - bad, bad))
    return 1 if bad else 0


if __name__ == "__main__":
    sys.exit(main())
