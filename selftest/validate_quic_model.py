"""RFC 9001 Appendix A / RFC 9000 A.3 vectors reproduced by the reference QUIC model."""
import os
import sys

HERE = os.path.dirname(os.path.abspath(__file__))
sys.path.insert(0, os.path.dirname(HERE))
from simtle import quicref as Q  # noqa: E402


def main():
    ok = True

    def eq(name, got, want):
        nonlocal ok
        g = got.hex() if isinstance(got, (bytes, bytearray)) else got
        if g != want:
            ok = False
            print("FAIL", name, g, "!=", want)
        else:
            print("ok  ", name)
    dcid = bytes.fromhex("8394c8f03e515708")
    c, s = Q.initial_keys(dcid)
    eq("A.1 client_initial_secret", c.secret, "c00cf151ca5be075ed0ebfb5c80323c42d6b7db67881289af4008f1f6c357aea")
    eq("A.1 client key", c.key, "1f369613dd76d5467730efcbe3b1a22d")
    eq("A.1 client iv", c.iv, "fa044b2f42a3fd3b46fb255c")
    eq("A.1 client hp", c.hp, "9f50449e04a0e810283a1e9933adedd2")
    eq("A.1 server_initial_secret", s.secret, "3c199828fd139efd216c155ad844cc81fb82fa8d7446fa7d78be803acdda951b")
    eq("A.1 server key", s.key, "cf3a5331653c364c88f0f379b6067e37")
    eq("A.1 server iv", s.iv, "0ac1493ca1905853b0bba03e")
    eq("A.1 server hp", s.hp, "c206b8d9b9f0f37644430b490eeaa314")
    # A.3 server Initial
    payload = bytes.fromhex("02000000000600405a020000560303eefce7f7b37ba1d1632e96677825ddf73988cfc79825df566dc5430b9a045a12"
                            "00130100002e00330024001d00209d3c940d89690b84d08a60993c144eca684d1081287c834d5311bcf32bb9da1a"
                            "002b00020304")
    hdr = Q.long_header(Q.INITIAL, b"", bytes.fromhex("f067a5502a4262b5"), 2, 2 + len(payload) + 16, token=b"", length_width=2)
    eq("A.3 unprotected header", hdr + b"\x00\x01", "c1000000010008f067a5502a4262b50040750001")
    pkt = Q.protect(s, hdr, 1, 2, payload, True)
    eq("A.3 protected server Initial", pkt,
       "cf000000010008f067a5502a4262b5004075c0d95a482cd0991cd25b0aac406a5816b6394100f37a1c69797554780bb38cc5a99f5ede4c"
       "f73c3ec2493a1839b3dbcba3f6ea46c5b7684df3548e7ddeb9c3bf9c73cc3f3bded74b562bfb19fb84022f8ef4cdd93795d77d06edbb7a"
       "af2f58891850abbdca3d20398c276456cbc42158407dd074ee")
    fb, pn, pl = Q.unprotect(s, pkt, len(hdr), 0, True)
    eq("A.3 round trip pn", pn, 1)
    eq("A.3 round trip payload", pl, payload.hex())
    # A.4 Retry
    r = Q.retry_packet(b"", bytes.fromhex("f067a5502a4262b5"), b"token", dcid, unused=0x0f)
    eq("A.4 retry", r, "ff000000010008f067a5502a4262b5746f6b656e04a265ba2eff4d829058fb3f0f2496ba")
    # A.5 ChaCha20-Poly1305 short header
    k = Q.Keys(bytes.fromhex("9ac312a7f877468ebe69422748ad00a15443f18203a07d6060f688f30f21632b"), "sha256", 32, "chacha")
    eq("A.5 key", k.key, "c6d98ff3441c3fe1b2182094f69caa2ed4b716b65488960a7a984979fb23e1c8")
    eq("A.5 iv", k.iv, "e0459b3474bdd0e44a41c144")
    eq("A.5 hp", k.hp, "25a282b9e82f06f21f488917a4fc8f1b73573685608597d0efcb076b0ab7a7a4")
    eq("A.5 ku", k.next_generation().secret, "1223504755036d556342ee9361d253421a826c9ecdf3c7148684b36b714881f9")
    pkt = Q.protect(k, Q.short_header(b"", 3, 0), 654360564, 3, b"\x01", False)
    eq("A.5 protected packet", pkt, "4cfe4189655e5cd55c41f69080575d7999c25a5bfb")
    # RFC 9000 A.3 example
    eq("RFC9000 A.3 example", Q.decode_pn(0xa82f30ea, 0x9b32, 16), 0xa82f9b32)
    eq("varint 37", Q.varint(37), "25")
    eq("varint 15293", Q.varint(15293), "7bbd")
    eq("varint 494878333", Q.varint(494878333), "9d7f3e7d")
    eq("varint 151288809941952652", Q.varint(151288809941952652), "c2197c5eff14e88c")
    print("QUIC model validation:", "PASSED" if ok else "FAILED")
    return 0 if ok else 1


if __name__ == "__main__":
    sys.exit(main())
