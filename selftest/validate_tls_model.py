"""Model validation (DESIGN section 4): decode the real OpenSSL captures shipped with the repo using ONLY the
reference model (simtle.tlsref) and check MACs/tags and the known plaintext."""
import glob
import os
import struct
import sys

HERE = os.path.dirname(os.path.abspath(__file__))
sys.path.insert(0, os.path.dirname(HERE))
from simtle import tlsref as T  # noqa: E402
from simtle.observer import read_pcapng  # noqa: E402

REPO = os.environ.get("VERIF_REPO", "/repo")


def load_keylog(path):
    kl = {}
    for line in open(path):
        p = line.strip().split(" ")
        if len(p) == 3:
            kl.setdefault(p[1].lower(), {})[p[0]] = bytes.fromhex(p[2])
    return kl


def lenient_streams(pkts):
    """real capture -> {(src,dst): bytes} for TCP, dedup by seq, sorted"""
    flows = {}
    for ts, _, fr in pkts:
        (et,) = struct.unpack_from(">H", fr, 12)
        if et == 0x0800:
            ihl = (fr[14] & 15) * 4
            tot = struct.unpack_from(">H", fr, 16)[0]
            proto = fr[23]
            src, dst = fr[26:30], fr[30:34]
            l4 = fr[14 + ihl:14 + tot]
        elif et == 0x86DD:
            plen = struct.unpack_from(">H", fr, 18)[0]
            proto = fr[20]
            src, dst = fr[22:38], fr[38:54]
            l4 = fr[54:54 + plen]
        else:
            continue
        if proto != 6:
            continue
        sp, dp, seq = struct.unpack_from(">HHI", l4, 0)
        off = (l4[12] >> 4) * 4
        data = l4[off:]
        if not data:
            continue
        flows.setdefault(((src, sp), (dst, dp)), {})[seq] = data
    out = {}
    for k, segs in flows.items():
        buf = b""
        for seq in sorted(segs):
            buf += segs[seq]
        out[k] = buf
    return out


def records(stream):
    pos = 0
    out = []
    while pos + 5 <= len(stream):
        ctype, ver, ln = struct.unpack_from(">BHH", stream, pos)
        out.append((ctype, ver, stream[pos + 5:pos + 5 + ln]))
        pos += 5 + ln
    return out


def decode_file(path, kl):
    pkts = read_pcapng(open(path, "rb").read())
    streams = lenient_streams(pkts)
    # find client->server direction: the one whose first record is a ClientHello
    res = []
    for (a, b), st in streams.items():
        recs = records(st)
        if not recs or recs[0][0] != 22 or recs[0][2][:1] != b"\x01":
            continue
        srecs = records(streams[(b, a)])
        ch = recs[0][2]
        crand = ch[6:38]
        sh = srecs[0][2]
        assert sh[0] == 2
        sver = struct.unpack_from(">H", sh, 4)[0]
        srand = sh[6:38]
        sidl = sh[38]
        suite = struct.unpack_from(">H", sh, 39 + sidl)[0]
        shlen = int.from_bytes(sh[1:4], "big")
        exts = {}
        p = 39 + sidl + 3
        if p < 4 + shlen:
            el = struct.unpack_from(">H", sh, p)[0]
            q = p + 2
            while q < p + 2 + el:
                et, ln = struct.unpack_from(">HH", sh, q)
                exts[et] = sh[q + 4:q + 4 + ln]
                q += 4 + ln
        ver = sver
        if exts.get(0x2b) == b"\x03\x04":
            ver = T.TLS13
        s = T.SUITES[suite]
        assert ver in T.valid_versions(s), (hex(ver), s)
        etm = 0x16 in exts
        secrets = kl[crand.hex()]
        app = {"c": b"", "s": b""}
        if ver == T.TLS13:
            ws = {}
            for side, lab in (("c", "CLIENT"), ("s", "SERVER")):
                k, iv = T.tls13_keys(s, secrets[lab + "_HANDSHAKE_TRAFFIC_SECRET"])
                ws[side] = T.WriteState(ver, s, k, iv=iv)
            for side, rs, lab in (("c", recs, "CLIENT"), ("s", srecs, "SERVER")):
                w = ws[side]
                for ctype, rv, frag in rs:
                    if ctype != 23:
                        continue
                    it, pt = w.open(ctype, rv, frag)
                    if it == 22:
                        # walk messages, switch after Finished
                        q = 0
                        while q < len(pt):
                            if pt[q] == 20 and w.key != "app":
                                k, iv = T.tls13_keys(s, secrets[lab + "_TRAFFIC_SECRET_0"])
                                w = T.WriteState(ver, s, k, iv=iv)
                            q += 4 + int.from_bytes(pt[q + 1:q + 4], "big")
                    elif it == 23:
                        app[side] += pt
        else:
            kb = T.key_block_legacy(ver, s, secrets["CLIENT_RANDOM"], crand, srand)
            ws = {"c": T.WriteState(ver, s, kb["ckey"], kb["cmac"], kb["civ"], etm),
                  "s": T.WriteState(ver, s, kb["skey"], kb["smac"], kb["siv"], etm)}
            for side, rs in (("c", recs), ("s", srecs)):
                enc = False
                for ctype, rv, frag in rs:
                    if ctype == 20:
                        enc = True
                        continue
                    if not enc:
                        continue
                    it, pt = ws[side].open(ctype, rv, frag)
                    if it == 23:
                        app[side] += pt
        res.append((ver, s, etm, app))
    return res


def main():
    kl = load_keylog(os.path.join(REPO, "test", "keylog.log"))
    files = sorted(glob.glob(os.path.join(REPO, "test", "testfiles", "*.pcapng")) +
                   glob.glob(os.path.join(REPO, "test", "incomplete_pcaps", "*.pcapng")))
    ok = 0
    seen = set()
    for f in files:
        try:
            res = decode_file(f, kl)
            assert res, "no TLS connection found"
            for ver, s, etm, app in res:
                total = app["c"] + app["s"]
                assert b"Lorem" in total, "no Lorem in plaintext"
                seen.add((ver, s.cipher, s.mode, s.mac, s.taglen))
            ok += 1
            print("ok   %-44s %s" % (os.path.basename(f), ", ".join("%04x/%s%s" % (v, s.name, "/etm" if e else "") for v, s, e, _ in res)))
        except Exception as ex:
            print("FAIL %-44s %r" % (os.path.basename(f), ex))
    print("validated %d/%d captures; %d distinct (version,cipher,mode,mac,tag) combinations" % (ok, len(files), len(seen)))
    return 0 if ok == len(files) else 1


if __name__ == "__main__":
    sys.exit(main())
