#!/usr/bin/env python3
"""Confirm a sub-agent's mutation and file it under /verif/seeded/<id>/.

  tools_confirm_seeded.py <property> <src dir with patch.diff demo.py notes.md> <seeded id> [detect_with props,...]

Checks, in a scratch copy of /repo (never in /repo): patch applies; repo tests still pass (60); demo exits 1 with the
patch and 0 without.  Then copies the files and writes meta.json."""
import json
import os
import re
import shutil
import subprocess
import sys

PY = "/venv/bin/python"


def sh(cmd, **kw):
    return subprocess.run(cmd, capture_output=True, text=True, **kw)


def main():
    prop, src, sid = sys.argv[1:4]
    detect = sys.argv[4].split(",") if len(sys.argv) > 4 else [prop]
    scratch = "/dev/shm/seedconf.%d" % os.getpid()
    shutil.rmtree(scratch, ignore_errors=True)
    subprocess.check_call(["rsync", "-a", "--exclude", ".git", "--exclude", "__pycache__", "/repo/", scratch + "/"])
    res = {"property": prop, "detect_with": detect}
    try:
        d0 = sh([PY, os.path.join(src, "demo.py"), scratch], timeout=600)
        res["demo_clean_exit"] = d0.returncode
        ap = sh(["patch", "-p1", "-s", "-d", scratch, "-i", os.path.join(src, "patch.diff")])
        res["patch_applies"] = ap.returncode == 0
        if ap.returncode != 0:
            print("patch failed:", ap.stdout, ap.stderr)
            return 1
        t = sh([PY, "-m", "pytest", "-q", "-p", "no:cacheprovider", "--timeout=900"], cwd=scratch)
        m = re.search(r"(\d+) failed, (\d+) passed", t.stdout) or re.search(r"(\d+) passed", t.stdout)
        res["tests"] = t.stdout.strip().splitlines()[-1] if t.stdout.strip() else ""
        d1 = sh([PY, os.path.join(src, "demo.py"), scratch], timeout=600)
        res["demo_patched_exit"] = d1.returncode
        res["demo_patched_output"] = (d1.stdout + d1.stderr)[-600:]
        ok = res["demo_clean_exit"] == 0 and res["demo_patched_exit"] == 1 and "60 passed" in res["tests"]
        res["confirmed"] = ok
        print(json.dumps(res, indent=1)[:1500])
        if not ok:
            return 1
        dst = os.path.join("/verif/seeded", sid)
        os.makedirs(dst, exist_ok=True)
        for f in ("patch.diff", "demo.py", "notes.md"):
            if os.path.exists(os.path.join(src, f)):
                shutil.copy(os.path.join(src, f), os.path.join(dst, f))
        notes = open(os.path.join(src, "notes.md")).read() if os.path.exists(os.path.join(src, "notes.md")) else ""
        meta = {"property": prop, "detect_with": detect,
                "origin": "written by an independent sub-agent that saw only the property text and a scratch worktree",
                "needs_to_manifest": notes[:1500],
                "confirmed_by": {"tests_with_patch": res["tests"], "demo_exit_with_patch": 1, "demo_exit_clean": 0,
                                 "how": "tools_confirm_seeded.py in a scratch rsync copy of /repo under /dev/shm"},
                "repo_commit": sh(["git", "-C", "/repo", "log", "--format=%h", "-1"]).stdout.strip()}
        json.dump(meta, open(os.path.join(dst, "meta.json"), "w"), indent=1)
        return 0
    finally:
        shutil.rmtree(scratch, ignore_errors=True)


if __name__ == "__main__":
    sys.exit(main())
