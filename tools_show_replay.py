#!/usr/bin/env python3
"""print a compact view of a replay file (spec essentials + trace)"""
import json
import sys

d = json.load(open(sys.argv[1]))
print("property", d["property"], "key", d["key"])
print("detail:", str(d["violation"].get("detail"))[:700])
sp = d["spec"]
for k in sp:
    if k not in ("conns", "plans", "variants", "other"):
        print(" ", k, "=", json.dumps(sp[k])[:300])
for c in sp["conns"]:
    cc = {k: v for k, v in c.items() if k not in ("q", "c", "s", "offered", "t")}
    print(" conn", json.dumps(cc)[:600])
    if "q" in c:
        q = dict(c["q"])
        sc = q.pop("script", [])
        print("   q", json.dumps(q)[:700])
        for i, fl in enumerate(sc):
            print("   flight", i, json.dumps(fl)[:400])
for e in d.get("trace", [])[:int(sys.argv[2]) if len(sys.argv) > 2 else 30]:
    print("  ", e)
